"""C01 — SDO client transfers exactly the caller's bytes in conformant CiA 301 frames."""
import io
import logging

import canopen
from canopen import objectdictionary as od
from canopen.sdo import SdoClient
from canopen.sdo.client import WritableStream, ReadableStream
from canopen.sdo.exceptions import SdoAbortedError, SdoCommunicationError

from props import c04

logging.disable(logging.CRITICAL)

ID = "C01"
PROOF_MODULES = ["CanopenProofs.C01", "CanopenProofs.C01ReadInto", "CanopenProofs.C01Text"]
GENERATED = ["Datatypes", "SdoConst"]
THEOREMS = [
    "Canopen.C01.download_delivers",
    "Canopen.C01.download_frames_legal",
    "Canopen.C01.upload_returns",
    "Canopen.C01.upload_truncate",
    "Canopen.C01.back_to_back",
    "Canopen.C01.client_decodes_abort",
    "Canopen.C01.readinto_rechunks",
    "Canopen.C01.text_roundtrip",
    "Canopen.C01.text_decode_exact",
    "Canopen.C01.text_download_delivers",
    "Canopen.C01.text_download_unencodable",
    "Canopen.C01.text_upload_returns",
    "Canopen.C01.text_download_then_upload",
    "Canopen.C01.univNl_id",
    "Canopen.C01.encodable_iff",
    "Canopen.C01.encodeCp_isSome",
]
FINGERPRINT = [
    "canopen.objectdictionary:ObjectDictionary.get_variable",
    "canopen.objectdictionary:ODArray.__getitem__",
    "canopen.sdo.client:SdoClient.request_response",
    "canopen.sdo.client:SdoClient.read_response",
    "canopen.sdo.client:SdoClient.send_request",
    "canopen.sdo.client:SdoClient.abort",
    "canopen.sdo.client:SdoClient.upload",
    "canopen.sdo.client:SdoClient.download",
    "canopen.sdo.client:SdoClient.open",
    "canopen.sdo.client:ReadableStream",
    "canopen.sdo.client:WritableStream",
]
TRUSTED = [
    "Spec/SdoServer.lean and its Python twin RefServer below: my reading of CiA 301 §7.2.4.3 (strict checks, "
    "every allowed answer style)",
    "io.BufferedWriter / BufferedReader / RawIOBase.readall assumed to obey the RawIOBase contract (theorems "
    "quantify over every caller that does; buffered modes are exercised, their raw write sizes recorded)",
    "queue.Queue modelled as a FIFO list; a time-out is 'queue empty when the client looks'",
    "io.TextIOWrapper assumed to be what its documentation says for errors='strict', newline=None: write(str) encodes "
    "its whole argument before handing anything over, read decodes incrementally and translates line ends; the "
    "codecs ascii / latin-1 / utf-8 are written again in Lean (Sdo/Text.lean) and compared with Python's on every op",
]
ASSUMPTIONS = ["a caller offers prefixes of the unsent remainder and advances by the count write() returns; when a "
               "size is declared it equals the payload length (the property's 'completed download')",
               "text mode: os.linesep is '\\n' (POSIX), so newline=None changes nothing on output; on input it is "
               "universal newlines ('\\r\\n' and '\\r' come back as '\\n' - Python's documented text-mode contract, "
               "modelled as univNl and checked, '\\r' and '\\n' are in every generated alphabet); a text that cannot be "
               "encoded has no payload length: such downloads declare no size or the number of bytes handed over "
               "before the failing write(); encodings covered: ascii, latin-1, utf-8 (utf-16 through a non-seekable "
               "stream is written without BOM by TextIOWrapper and differs from str.encode: left out)"]
RULE = ("op seq: a sequence of transfers on one client against the strict reference server in one answer style; "
        "every payload length 0..64 (thorough 0..1100 + {4095..4105, 10000}) x declared/not x forced/not x "
        "caller chunkings (all-at-once, 1, 3, 7, 8, seeded) and buffering modes 0/2/7/8/1024 and the API; upload "
        "styles x cut lists; dictionary entry types over every data type; non-trivial = every transfer returned ok; "
        "op txt: the same through text mode of open(): encodings ascii/latin-1/utf-8 x every text length 0..64 "
        "(thorough + 100..10000 around TextIOWrapper's 8192 chunk) over alphabets with line ends, NUL, the borders of "
        "each encoding, astral characters and surrogates x characters outside the encoding x split into write(str) "
        "calls (one, per character, per line, seeded, none) x buffering 1 (line) /2/3/7/8/1024 x declared/forced; "
        "uploads of encoded text, damaged text (every malformed UTF-8 form) and raw bytes read as read(), read(k) "
        "loops, line iteration, read(k)+read(); write-then-read histories; non-trivial = ran to its end or was refused "
        "by the codec")


# ---------------------------------------------------------------------- strict reference server (Python twin)
class RefServer:
    def __init__(self, held, size_ind, expedited, exp_size, cuts):
        self.phase = ("idle",)
        self.mux = (0, 0)
        self.held = dict(held)
        self.commits = []
        self.illegal = None
        self.style = (size_ind, expedited, exp_size, list(cuts))

    def flag(self, cond, why):
        if cond and self.illegal is None:
            self.illegal = why

    @staticmethod
    def abort(idx, sub, code):
        return bytes([0x80, idx % 256, idx // 256 % 256, sub % 256]) + code.to_bytes(4, "little")

    def step(self, r):
        if len(r) != 8:
            self.flag(True, "request is not 8 bytes")
            return []
        c0 = r[0]
        ccs = c0 >> 5
        idx, sub = r[1] | r[2] << 8, r[3]
        if ccs == 1:
            e, sz, n = bool(c0 & 2), bool(c0 & 1), (c0 >> 2) & 3
            self.flag(c0 & 0x10, "download initiate: reserved bit set")
            resp = bytes([0x60, r[1], r[2], r[3], 0, 0, 0, 0])
            if e:
                self.flag(not sz and n, "download initiate: n set without s")
                ln = 4 - n if sz else 4
                data = r[4:4 + ln]
                self.flag(any(r[4 + ln:]), "download initiate: unused bytes not zero")
                self.phase, self.mux = ("idle",), (idx, sub)
                self.held[(idx, sub)] = data
                self.commits.append(((idx, sub), data))
            else:
                self.flag(n, "download initiate: n set in a segmented initiate")
                self.flag(not sz and any(r[4:]), "download initiate: size bytes set without s")
                self.phase = ("down", int.from_bytes(r[4:], "little") if sz else None, b"", False)
                self.mux = (idx, sub)
            return [resp]
        if ccs == 0:
            if self.phase[0] != "down":
                self.flag(True, "download segment outside a segmented download")
                return [self.abort(*self.mux, 0x05040001)]
            _, declared, buf, toggle = self.phase
            t, n, last = bool(c0 & 0x10), (c0 >> 1) & 7, bool(c0 & 1)
            seg = r[1:8 - n]
            self.flag(t != toggle, "download segment: toggle bit does not alternate from 0")
            self.flag(any(r[8 - n:]), "download segment: unused bytes not zero")
            buf += seg
            self.flag(declared is not None and declared < len(buf), "download segment: more bytes than the declared size")
            resp = bytes([0x20 | (0x10 if t else 0)]) + bytes(7)
            if last:
                self.flag(declared is not None and declared != len(buf), "download: declared size differs from the bytes sent")
                self.phase = ("idle",)
                self.held[self.mux] = buf
                self.commits.append((self.mux, buf))
            else:
                self.flag(len(seg) == 0, "download segment: empty segment that is not the last")
                self.phase = ("down", declared, buf, not toggle)
            return [resp]
        if ccs == 2:
            self.flag(c0 & 0x1F, "upload initiate: reserved bits set")
            self.flag(any(r[4:]), "upload initiate: reserved bytes not zero")
            data = self.held.get((idx, sub))
            self.mux = (idx, sub)
            if data is None:
                self.phase = ("idle",)
                return [self.abort(idx, sub, 0x06020000)]
            size_ind, expedited, exp_size, cuts = self.style
            if expedited and 1 <= len(data) <= 4:
                cmd = 0x43 + (4 - len(data)) * 4 if exp_size else 0x42
                self.phase = ("idle",)
                return [bytes([cmd]) + r[1:4] + data.ljust(4, b"\0")]
            self.phase = ("up", data, False, list(cuts))
            return [bytes([0x41 if size_ind else 0x40]) + r[1:4] +
                    (len(data).to_bytes(4, "little") if size_ind else bytes(4))]
        if ccs == 3:
            if self.phase[0] != "up":
                self.flag(True, "upload segment request outside a segmented upload")
                return [self.abort(*self.mux, 0x05040001)]
            _, rest, toggle, cuts = self.phase
            t = bool(c0 & 0x10)
            self.flag(c0 & 0x0F, "upload segment request: reserved bits set")
            self.flag(any(r[1:]), "upload segment request: reserved bytes not zero")
            self.flag(t != toggle, "upload segment request: toggle bit does not alternate from 0")
            k = min(max(cuts[0] if cuts else 7, 1), 7)
            seg, rest2 = rest[:k], rest[k:]
            last = not rest2
            self.phase = ("idle",) if last else ("up", rest2, not toggle, cuts[1:])
            return [bytes([(0x10 if t else 0) | (7 - len(seg)) << 1 | int(last)]) + seg.ljust(7, b"\0")]
        if ccs == 4:
            self.phase = ("idle",)
            return []
        self.flag(True, "unknown client command specifier")
        return [self.abort(*self.mux, 0x05040001)]


class Bus:
    """synchronous in-memory bus between one real SdoClient and the reference server"""

    def __init__(self, client, server, wrap=None):
        self.client, self.server = client, server
        self.requests, self.responses = [], []
        self.wrap = wrap

    def send_message(self, can_id, data, remote=False):
        data = bytes(data)
        self.requests.append(data)
        rs = self.server.step(data)
        if self.wrap:
            rs = self.wrap(data, rs)
        for r in rs:
            self.responses.append(r)
            self.client.on_response(0x582, r, 0.0)


def make_od(odtypes):
    d = od.ObjectDictionary()
    for (idx, sub), t in odtypes.items():
        if t == "x":
            continue
        if idx in d:
            continue
        if t[0] in "ar":
            # the entry is declared through an array (member 1 is the template of every sub-index 1..255) or a
            # record (exactly this member): SdoClient.upload finds its type through ObjectDictionary.get_variable
            grp = (od.ODArray if t[0] == "a" else od.ODRecord)(f"g{idx}", idx)
            n0 = od.ODVariable("n", idx, 0)
            n0.data_type = 0x05
            grp.add_member(n0)
            m = od.ODVariable(f"m{idx}", idx, 1 if t[0] == "a" else (sub or 1))
            m.data_type = int(t[1:])
            grp.add_member(m)
            d.add_object(grp)
            continue
        v = od.ODVariable(f"v{idx}", idx, 0)
        v.data_type = None if t == "n" else int(t)
        d.add_object(v)
    return d


def parse_xfer(s):
    p = s.split(":")
    if p[0] == "d":
        return ("d", int(p[1]), int(p[2]), c04.unhx(p[3]), p[4] == "1", p[5] == "1", c04.unnl(p[6]))
    if len(p) > 4:
        # an upload through BufferedReader: the buffer sizes its readinto calls handed over when the op was made
        return ("u", int(p[1]), int(p[2]), p[3], c04.unnl(p[4]))
    return ("u", int(p[1]), int(p[2]), p[3])


def parse_held(s):
    res = []
    if s != "-":
        for e in s.split("&"):
            k, v = e.split("=")
            i, j = k.split(".")
            res.append(((int(i), int(j)), c04.unhx(v)))
    # first binding wins in the model's lookup
    d = {}
    for k, v in res:
        d.setdefault(k, v)
    return d


class HarnessSpin(Exception):
    """raised by the harness when the raw stream keeps answering 0 to the same offer (BufferedWriter would spin)"""


def parse_mode(mode):
    """'b<bs>' or 'b<bs>c<k>' → (buffer size, chunk size or None); 'r<k>' → (0, k); a trailing 'a' (uploads):
    one read(k), then read() for all the rest"""
    if mode[0] == "r" and mode != "raw":
        return 0, int(mode[1:])
    body = mode[1:].rstrip("a")
    if "c" in body:
        bs, k = body.split("c")
        return int(bs), int(k)
    return int(body), None


def err_name(e):
    if isinstance(e, HarnessSpin):
        return "err spin"
    if isinstance(e, SdoAbortedError):
        return f"err aborted {e.code}"
    if isinstance(e, SdoCommunicationError):
        return "err comm"
    return "err other"


def do_download(client, idx, sub, data, sized, force, offers, mode, record=None):
    size = len(data) if sized else None
    if mode == "api":
        if not sized:
            mode = "b7"
        else:
            client.download(idx, sub, data, force_segment=force)
            return
    if mode == "raw":
        fp = client.open(idx, sub, "wb", buffering=0, size=size, force_segment=force)
        rem, offs = data, list(offers)
        guard = 2 * len(data) + len(offers) + 2
        while rem and guard:
            guard -= 1
            k = max(offs.pop(0), 1) if offs else len(rem)
            n = fp.write(rem[:k])
            rem = rem[n:]
        fp.close()
        fp.close()          # closing is idempotent: a second close (explicit close inside `with`) sends nothing
        return
    if mode[0] == "t":
        # text mode (TextIOWrapper over the buffered stream); 't1' = line buffering
        kw = {"buffering": 1} if mode == "t1" else {}
        with client.open(idx, sub, "w", size=size, force_segment=force, **kw) as fp:
            fp.write(data.decode("ascii"))
        return
    bs, k = parse_mode(mode)
    with client.open(idx, sub, "wb", buffering=bs, size=size, force_segment=force) as fp:
        if k is None:
            fp.write(data)
        else:
            for i in range(0, len(data), k):
                fp.write(data[i:i + k])


def do_upload(client, idx, sub, mode):
    if mode in ("api", "raw") or True:
        pass
    if mode == "api":
        return client.upload(idx, sub)
    if mode == "raw":
        fp = client.open(idx, sub, "rb", buffering=0)
        out = b""
        while True:
            d = fp.read(7)
            if not d:
                break
            out += d
        fp.close()
        return out
    if mode[0] == "t":
        kw = {"buffering": 1} if mode == "t1" else {}
        with client.open(idx, sub, "r", **kw) as fp:
            return fp.read().encode("ascii")
    bs, k = parse_mode(mode)
    if bs == 0:
        # unbuffered, read(k): the size argument is documented as ignored (one segment per call)
        fp = client.open(idx, sub, "rb", buffering=0)
        out = b""
        while True:
            d = fp.read(k)
            if not d:
                break
            out += d
        fp.close()
        return out
    with client.open(idx, sub, "rb", buffering=bs) as fp:
        if k is None:
            return fp.read()
        if mode.endswith("a"):
            return fp.read(k) + fp.read()
        out = b""
        while True:
            d = fp.read(k)
            if not d:
                break
            out += d
        return out


def run_seq(held, style, mode, xfers, wrap=None, record_offers=None, record_reads=None):
    server = RefServer(held, *style)
    odtypes = {(x[1], x[2]): x[3] for x in xfers if x[0] == "u"}
    client = SdoClient(0x602, 0x582, make_od(odtypes))
    client.RESPONSE_TIMEOUT = 0.001
    bus = Bus(client, server, wrap)
    client.network = bus
    results = []
    orig = WritableStream.write
    seen = []
    zeros = [0]

    def rec(self, b):
        seen.append(len(b))
        n = orig(self, b)
        zeros[0] = zeros[0] + 1 if n == 0 and len(b) else 0
        if zeros[0] > 12:
            zeros[0] = 0
            raise HarnessSpin()
        return n
    WritableStream.write = rec
    orig_ri = ReadableStream.readinto
    rseen = []

    def rec_ri(self, b):
        n = orig_ri(self, b)
        rseen.append((len(b), n))
        return n
    ReadableStream.readinto = rec_ri
    try:
        for x in xfers:
            del seen[:]
            del rseen[:]
            try:
                if x[0] == "d":
                    do_download(client, x[1], x[2], x[3], x[4], x[5], x[6], mode)
                    results.append("ok")
                else:
                    # non-API read paths never truncate: they only see a declared type through upload()
                    results.append("ok " + c04.hx(do_upload(client, x[1], x[2], mode)))
            except Exception as e:
                results.append(err_name(e))
            if record_offers is not None:
                record_offers.append(list(seen))
            if record_reads is not None:
                record_reads.append(list(rseen))
    finally:
        WritableStream.write = orig
        ReadableStream.readinto = orig_ri
    return results, bus, server


def show_frames(fs):
    return ",".join(c04.hx(f) for f in fs) if fs else "-"


def run_impl(op):
    a = op.split(" ")
    if a[0] == "txt":
        return run_impl_txt(op)
    held = parse_held(a[1])
    style = (a[2] == "1", a[3] == "1", a[4] == "1", c04.unnl(a[5]))
    mode = a[6]
    xfers = [parse_xfer(s) for s in a[7].split(";")]
    rec = [] if mode not in ("raw",) else None
    reads = []
    results, bus, server = run_seq(held, style, mode, xfers, record_offers=rec, record_reads=reads)
    for i, (x, rd) in enumerate(zip(xfers, reads)):
        if x[0] == "u" and len(x) > 4:
            # the op carries the buffer sizes; report what each readinto handed over
            if [a_ for a_, _ in rd] != list(x[4]):
                return f"SIZES-CHANGED {[a_ for a_, _ in rd]}"
            if results[i].startswith("ok"):
                results[i] += "@" + ".".join(str(n) for _, n in rd)
    if rec is not None:
        # buffered modes: the op carries the raw write sizes observed when it was generated
        for x, seen in zip(xfers, rec):
            if x[0] == "d" and list(x[6]) != seen:
                return f"OFFERS-CHANGED {seen}"
    commits = "&".join(f"{i}.{j}={c04.hx(b)}" for (i, j), b in server.commits) if server.commits else "-"
    ill = "-" if server.illegal is None else server.illegal.replace(" ", "_")
    return f"{';'.join(results)} | {show_frames(bus.requests)} | {show_frames(bus.responses)} | {commits} | {ill}"


# ---------------------------------------------------------------------- independent oracle
NUMERIC_BYTES = {**{t: w // 8 for t, (w, _) in c04.SPEC.items()}, 0x01: 1, 0x08: 4, 0x11: 8}


def oracle(op, out):
    a = op.split(" ")
    if a[0] == "txt":
        return None if out.startswith("HARNESS") else oracle_txt(op, out)
    if out.startswith("OFFERS-CHANGED") or out.startswith("SIZES-CHANGED") or out.startswith("HARNESS"):
        return None
    held = parse_held(a[1])
    size_ind, expedited, exp_size = a[2] == "1", a[3] == "1", a[4] == "1"
    mode = a[6]
    xfers = [parse_xfer(s) for s in a[7].split(";")]
    parts = out.split(" | ")
    results = parts[0].split(";")
    if parts[4] != "-":
        return f"the client emitted an illegal request frame: {parts[4]}"
    exp_commits = []
    for x, r in zip(xfers, results):
        if x[0] == "d":
            if r == "err spin":
                bs, k = parse_mode(mode)
                return (f"spin:expedited-declared-size-in-pieces download of {len(x[3])} byte(s) with declared size, "
                        f"written in pieces of {k} through BufferedWriter({bs}): WritableStream.write answers 0 "
                        f"to every offer shorter than the declared size, the buffered writer never gets rid of its "
                        f"{bs} byte(s) and spins forever")
            if r != "ok":
                return f"download of {len(x[3])} byte(s) to a conformant server failed: {r}"
            held[(x[1], x[2])] = x[3]
            exp_commits.append(f"{x[1]}.{x[2]}={c04.hx(x[3])}")
        else:
            if "@" in r:
                # readinto never hands over more than fits, and loses, repeats or reorders nothing: the pieces
                # are the raw segment stream cut differently (whatever BufferedReader made of them is r itself)
                r, lens = r.split("@")
                lens = [int(v) for v in lens.split(".")] if lens else []
                if any(n > cap for n, cap in zip(lens, x[4])):
                    return f"readinto handed over {lens} into buffers of {list(x[4])}"
            data = held.get((x[1], x[2]))
            if data is None:
                exp = f"err aborted {0x06020000}"
            else:
                if expedited and 1 <= len(data) <= 4 and not exp_size:
                    data = data.ljust(4, b"\0")      # e=1, s=0: the frame carries four bytes
                t = x[3]
                if mode == "api" and t not in ("x", "n") and int(t.lstrip("ar")) in NUMERIC_BYTES:
                    data = data[:NUMERIC_BYTES[int(t.lstrip("ar"))]]
                exp = "ok " + c04.hx(data)
            if r == "err other" and mode[0] == "b" and parse_mode(mode)[0] < 7 and parse_mode(mode)[1] is not None:
                bs, k = parse_mode(mode)
                return (f"bufread:buffer-smaller-than-segment upload of {len(data)} byte(s) read {k} at a time "
                        f"through BufferedReader({bs}) raised: ReadableStream.readinto hands a whole 7-byte segment "
                        f"to a {bs}-byte buffer (ValueError)")
            if r != exp:
                return f"upload returned {r}, the server holds {exp}"
    # one initiate per transfer: once a transfer has been initiated the next legal frames are its segments
    reqs = [] if parts[1] == "-" else parts[1].split(",")
    n_init_d = sum(1 for f in reqs if int(f[:2], 16) & 0xE0 == 0x20)
    n_init_u = sum(1 for f in reqs if int(f[:2], 16) & 0xE0 == 0x40)
    n_d = sum(1 for x in xfers if x[0] == "d")
    if all(r.startswith("ok") for r in results) and (n_init_d != n_d or n_init_u != len(xfers) - n_d):
        return (f"the client emitted an illegal request frame: initiate-out-of-step: {n_init_d} download and {n_init_u} "
                f"upload initiate frames for {n_d} download(s) and {len(xfers) - n_d} upload(s)")
    got = parts[3]
    if got != ("&".join(exp_commits) if exp_commits else "-"):
        return f"server committed {got}, the caller wrote {'&'.join(exp_commits) or '-'}"
    return None


def signature(op, what):
    if what.startswith(("spin:", "bufread:")):
        return what.split(" ")[0]
    if "illegal request" in what:
        return "illegal-frame:" + what.split(": ", 1)[1].split(":")[0]
    return what.split(" ")[0]


def nontrivial(op, out):
    if op.startswith("txt "):
        # a text transfer that ran to its end, or one the codec refused
        return all(r.startswith("ok") or r == "err unicode" for r in out.split(" | ")[0].split(";"))
    return all(r.startswith("ok") for r in out.split(" | ")[0].split(";"))


def classify(op, out):
    a = op.split(" ")
    if a[0] == "txt":
        rs = out.split(" | ")[0].split(";")
        kinds = "".join(sorted({x[0] for x in a[8].split(";")}))
        res = "ok" if all(r.startswith("ok") for r in rs) else ("unicode" if "err unicode" in rs else "err")
        return f"txt:{a[6]}:{kinds}:{res}"
    kinds = "".join(sorted({x[0] for x in a[7].split(";")}))
    return f"{a[6]}:{kinds}:{'ok' if nontrivial(op, out) else 'err'}"


def shrink_candidates(op):
    a = op.split(" ")
    if a[0] == "txt":
        yield from shrink_txt(op)
        return
    xs = a[7].split(";")
    if len(xs) > 1:
        for i in range(len(xs)):
            yield " ".join(a[:7] + [";".join(xs[:i] + xs[i + 1:])])
    for i, x in enumerate(xs):
        p = x.split(":")
        if p[0] == "d" and p[3] != "-" and a[6] == "raw":
            b = c04.unhx(p[3])
            for nb in (b[:len(b) // 2], b[:-1]):
                q = p[:3] + [c04.hx(nb)] + p[4:]
                yield " ".join(a[:7] + [";".join(xs[:i] + [":".join(q)] + xs[i + 1:])])


# ---------------------------------------------------------------------- text mode of open() (op kind `txt`)
# txt <held> <si> <ex> <es> <cuts> <encoding> <buffering>-<how> <xfer;…>
#   D:<idx>:<sub>:<pieces>:<sized>:<force>:<offers>   download: one write(str) per piece; pieces `_` = no write at
#       all, else texts separated by `/`, a text = `-` (empty) or hex code points separated by `.`; `sized`: the size
#       declared is the number of bytes that reach the stream; offers = raw write sizes observed when the op was made
#   U:<idx>:<sub>:<reads>                             upload read as <how> says (all | r<k> | lines | r<k>a);
#       reads = `-` when the reader read to the end, else the number of raw reads after which it stopped
TEXT_ENCODINGS = ["ascii", "latin-1", "utf-8"]


def cps(text):
    return ".".join(format(ord(ch), "x") for ch in text) if text else "-"


def uncps(s):
    return "" if s == "-" else "".join(chr(int(x, 16)) for x in s.split("."))


def pieces_token(pieces):
    return "/".join(cps(t) for t in pieces) if pieces else "_"


def parse_pieces(s):
    return [] if s == "_" else [uncps(t) for t in s.split("/")]


def parse_txfer(s):
    p = s.split(":")
    if p[0] == "D":
        return ("D", int(p[1]), int(p[2]), parse_pieces(p[3]), p[4] == "1", p[5] == "1", c04.unnl(p[6]))
    return ("U", int(p[1]), int(p[2]), None if p[3] == "-" else int(p[3]))


def handed_over(enc, pieces):
    """the bytes that reach the binary stream: write(str) encodes its whole argument before it hands anything over,
    so these are the encodings of the pieces before the first one that cannot be encoded (used for the declared size
    only; the oracle encodes the whole text with str.encode itself)"""
    out = b""
    for t in pieces:
        try:
            out += t.encode(enc)
        except UnicodeError:
            break
    return out


def parse_tmode(mode):
    b, how = mode.split("-")
    return int(b), how


def do_text_download(client, idx, sub, enc, buffering, pieces, sized, force):
    size = len(handed_over(enc, pieces)) if sized else None
    with client.open(idx, sub, "w", encoding=enc, buffering=buffering, size=size, force_segment=force) as fp:
        for t in pieces:
            fp.write(t)


def do_text_upload(client, idx, sub, enc, buffering, how):
    with client.open(idx, sub, "r", encoding=enc, buffering=buffering) as fp:
        if how == "all":
            return fp.read()
        if how == "lines":
            return "".join(list(fp))
        k = int(how[1:].rstrip("a"))
        if how.endswith("a"):
            return fp.read(k) + fp.read()
        out = []
        while True:
            d = fp.read(k)
            if not d:
                break
            out.append(d)
        return "".join(out)


def terr_name(e):
    if isinstance(e, UnicodeError):
        return "err unicode"
    return err_name(e)


def run_txt(held, style, enc, mode, xfers):
    """→ (results, bus, server, raw write sizes per transfer, raw reads per transfer as (count, saw the end))"""
    server = RefServer(held, *style)
    client = SdoClient(0x602, 0x582, make_od({}))
    client.RESPONSE_TIMEOUT = 0.001
    bus = Bus(client, server)
    client.network = bus
    buffering, how = parse_tmode(mode)
    results, offers, reads = [], [], []
    orig_w, orig_r = WritableStream.write, ReadableStream.read
    seen, rseen, zeros = [], [], [0]

    def rec_w(self, b):
        seen.append(len(b))
        n = orig_w(self, b)
        zeros[0] = zeros[0] + 1 if n == 0 and len(b) else 0
        if zeros[0] > 12:
            zeros[0] = 0
            raise HarnessSpin()
        return n

    def rec_r(self, size=-1):
        d = orig_r(self, size)
        if size is not None and size >= 0:
            rseen.append(len(d))
        return d
    WritableStream.write, ReadableStream.read = rec_w, rec_r
    try:
        for x in xfers:
            del seen[:]
            del rseen[:]
            zeros[0] = 0
            try:
                if x[0] == "D":
                    do_text_download(client, x[1], x[2], enc, buffering, x[3], x[4], x[5])
                    results.append("ok")
                else:
                    results.append("ok " + cps(do_text_upload(client, x[1], x[2], enc, buffering, how)))
            except Exception as e:
                results.append(terr_name(e))
            offers.append(list(seen))
            reads.append(None if (rseen and rseen[-1] == 0) else len(rseen))
    finally:
        WritableStream.write, ReadableStream.read = orig_w, orig_r
    return results, bus, server, offers, reads


def txt_parts(op):
    a = op.split(" ")
    held = parse_held(a[1])
    style = (a[2] == "1", a[3] == "1", a[4] == "1", c04.unnl(a[5]))
    return a, held, style, a[6], a[7], [parse_txfer(s) for s in a[8].split(";")]


def run_impl_txt(op):
    a, held, style, enc, mode, xfers = txt_parts(op)
    results, bus, server, offers, reads = run_txt(held, style, enc, mode, xfers)
    commits = "&".join(f"{i}.{j}={c04.hx(b)}" for (i, j), b in server.commits) if server.commits else "-"
    ill = "-" if server.illegal is None else server.illegal.replace(" ", "_")
    out = f"{';'.join(results)} | {show_frames(bus.requests)} | {show_frames(bus.responses)} | {commits} | {ill}"
    # the op carries what the buffered layers did when it was made; when they do something else now the answer is
    # still judged by the oracle, the note makes the comparison with the model fail (changed behaviour)
    for x, o, r in zip(xfers, offers, reads):
        if x[0] == "D" and list(x[6]) != o:
            return out + f" | OFFERS-CHANGED {c04.nl(o)}"
        if x[0] == "U" and x[3] != r:
            return out + f" | READS-CHANGED {'-' if r is None else r}"
    return out


def universal_newlines(text):
    return text.replace("\r\n", "\n").replace("\r", "\n")


def oracle_txt(op, out):
    a, held, style, enc, mode, xfers = txt_parts(op)
    size_ind, expedited, exp_size, _ = style
    buffering, how = parse_tmode(mode)
    parts = out.split(" | ")
    results = parts[0].split(";")
    exp_commits, judged_all = [], True
    for x, r in zip(xfers, results):
        if x[0] == "D":
            text = "".join(x[3])
            try:
                data = text.encode(enc)          # strict
            except UnicodeError:
                data = None
            if data is None:
                if r.startswith("ok"):
                    return (f"text-download-unencodable-completed: download of {text!r} through open(mode='w', "
                            f"encoding={enc!r}) returned normally although the text cannot be encoded; the server "
                            f"committed {parts[3]}")
                # the error went to the caller: the transfer is not a completed one, what the server was left with
                # is not the property's business; nothing after it in this history is judged
                judged_all = False
                break
            if r == "err spin":
                pre = "spin:expedited-declared-size-flushed-early" if buffering == 1 else "spin:text-other"
                return (f"{pre} text download of {len(data)} byte(s) with declared size written as "
                        f"{[t for t in x[3]]!r} through open(mode='w', buffering={buffering}): the text layer flushes "
                        f"after a piece holding a line end, WritableStream.write answers 0 to the offer shorter than "
                        f"the declared size and BufferedWriter.flush spins forever")
            if r != "ok":
                return (f"text-download-failed: download of {text!r} ({len(data)} byte(s) in {enc}) to a conformant "
                        f"server failed: {r}")
            held[(x[1], x[2])] = data
            exp_commits.append(f"{x[1]}.{x[2]}={c04.hx(data)}")
        else:
            data = held.get((x[1], x[2]))
            if data is None:
                exp = f"err aborted {0x06020000}"
            else:
                if expedited and 1 <= len(data) <= 4 and not exp_size:
                    data = data.ljust(4, b"\0")
                try:
                    exp = "ok " + cps(universal_newlines(data.decode(enc)))      # strict
                except UnicodeError:
                    exp = "err unicode"
            if r != exp:
                return (f"text-upload-wrong: upload through open(mode='r', encoding={enc!r}) read as {how} returned "
                        f"{r}, the server holds {None if data is None else data.hex()} = {exp}")
    if parts[4] != "-":
        return f"the client emitted an illegal request frame: {parts[4]}"
    if judged_all and parts[3] != ("&".join(exp_commits) if exp_commits else "-"):
        return f"text-commit-wrong: server committed {parts[3]}, the caller wrote {'&'.join(exp_commits) or '-'}"
    return None


def finish_txt(held, style, enc, mode, xfers_raw):
    """record what the buffered layers do (raw write sizes, raw reads) into the op"""
    xfers = [parse_txfer(x) for x in xfers_raw]
    _, _, _, offers, reads = run_txt(parse_held(held), style, enc, mode, xfers)
    out = []
    for x, o, r in zip(xfers, offers, reads):
        if x[0] == "D":
            out.append(f"D:{x[1]}:{x[2]}:{pieces_token(x[3])}:{int(x[4])}:{int(x[5])}:{c04.nl(o)}")
        else:
            out.append(f"U:{x[1]}:{x[2]}:{'-' if r is None else r}")
    si, ex, es, cuts = style
    return f"txt {held} {int(si)} {int(ex)} {int(es)} {c04.nl(cuts)} {enc} {mode} {';'.join(out)}"


def refinish_txt(a, xs):
    style = (a[2] == "1", a[3] == "1", a[4] == "1", c04.unnl(a[5]))
    return finish_txt(a[1], style, a[6], a[7], xs)


def shrink_txt(op):
    a = op.split(" ")
    xs = a[8].split(";")
    if len(xs) > 1:
        for i in range(len(xs)):
            yield refinish_txt(a, xs[:i] + xs[i + 1:])
    for i, x in enumerate(xs):
        p = x.split(":")
        if p[0] == "D":
            pieces = parse_pieces(p[3])
            cands = []
            if len(pieces) > 1:
                cands += [pieces[:j] + pieces[j + 1:] for j in range(len(pieces))]
                cands.append(["".join(pieces)])
            for j, t in enumerate(pieces):
                if len(t) > 1:
                    cands += [pieces[:j] + [t[:len(t) // 2]] + pieces[j + 1:], pieces[:j] + [t[len(t) // 2:]] + pieces[j + 1:],
                              pieces[:j] + [t[:-1]] + pieces[j + 1:], pieces[:j] + [t[1:]] + pieces[j + 1:]]
            for c in cands:
                q = p[:3] + [pieces_token(c)] + p[4:]
                yield refinish_txt(a, xs[:i] + [":".join(q)] + xs[i + 1:])
            for k in (4, 5):
                if p[k] == "1":
                    yield refinish_txt(a, xs[:i] + [":".join(p[:k] + ["0"] + p[k + 1:])] + xs[i + 1:])
    if a[1] != "-":
        ents = a[1].split("&")
        for i, e in enumerate(ents):
            k, v = e.split("=")
            b = c04.unhx(v)
            for nb in (b[:len(b) // 2], b[len(b) // 2:], b[:-1], b[1:]):
                if nb != b:
                    yield refinish_txt(a[:1] + ["&".join(ents[:i] + [f"{k}={c04.hx(nb)}"] + ents[i + 1:])] + a[2:], xs)
    if a[7] != "1024-all":
        yield refinish_txt(a[:7] + ["1024-all"] + a[8:], xs)
    if a[5] != "-":
        yield refinish_txt(a[:5] + ["-"] + a[6:], xs)



# ---------------------------------------------------------------------- generators
MODES = ["raw", "b2", "b7", "b8", "b1024", "api"]
CHUNKED_W = ["b2c1", "b3c1", "b3c2", "b4c3", "b7c3", "b8c5", "b1024c4"]        # BufferedWriter(bs), write(k bytes) …
CHUNKED_R = ["r1", "r3", "r9", "b2c1", "b3c2", "b5c3", "b7c3", "b8c5", "b1024c4", "b7c100",
             "b2c1a", "b3c2a", "b5c3a", "b6c1a", "b8c3a"]   # read(k) …
MUXES = [(0x2000, 0), (0x1018, 1), (0xFFFF, 255), (0x0001, 0), (0x6040, 0), (0x1000, 0)]
ODTYPES = ["x", "n"] + [str(t) for t in sorted(c04.SPEC)] + ["1", "8", "17", "9", "10", "11", "15", "12", "32"]


def dl_token(idx, sub, data, sized, force, offers):
    return f"d:{idx}:{sub}:{c04.hx(data)}:{int(sized)}:{int(force)}:{c04.nl(offers)}"


def finish_op(held, style, mode, xfers_raw):
    """for buffered / api modes replace the offers of every download by the raw write sizes observed"""
    xfers = [parse_xfer(x) for x in xfers_raw]
    if mode != "raw":
        rec, reads = [], []
        run_seq(parse_held(held), style, mode, xfers, record_offers=rec, record_reads=reads)
        out = []
        for x, seen, rd in zip(xfers, rec, reads):
            if x[0] == "d":
                out.append(dl_token(x[1], x[2], x[3], x[4], x[5], seen))
            elif mode[0] in "bt" and rd and not mode.endswith("a"):
                out.append(f"u:{x[1]}:{x[2]}:{x[3]}:{c04.nl([a_ for a_, _ in rd])}")
            else:
                out.append(f"u:{x[1]}:{x[2]}:{x[3]}")
        xfers_raw = out
    si, ex, es, cuts = style
    return f"seq {held} {int(si)} {int(ex)} {int(es)} {c04.nl(cuts)} {mode} {';'.join(xfers_raw)}"


def rand_bytes(rng, n):
    return bytes(rng.getrandbits(8) for _ in range(n))


def chunkings(rng, n):
    return [[], [1] * n, [3] * n, [7] * n, [8] * n, [rng.randint(1, 9) for _ in range(n + 1)]]


# ---- text mode: alphabets per encoding (line ends are in every pool: TextIOWrapper's newline handling is part of
# what is checked), characters outside each encoding, malformed byte strings
POOL_ASCII = [0x41, 0x7A, 0x30, 0x20, 0x7E, 0x00, 0x7F, 0x09, 0x0A, 0x0D]
POOL_LATIN = [0x80, 0xA0, 0xE9, 0xFC, 0xDF, 0xFF]
POOL_BMP = [0x100, 0x7FF, 0x800, 0x20AC, 0xD7FF, 0xE000, 0xFFFD, 0xFFFF]
POOL_ASTRAL = [0x10000, 0x1F600, 0x10FFFF]
POOL_SURR = [0xD800, 0xDBFF, 0xDC00, 0xDFFF]
INSIDE = {"ascii": POOL_ASCII, "latin-1": POOL_ASCII * 2 + POOL_LATIN, "utf-8": POOL_ASCII * 2 + POOL_LATIN + POOL_BMP
          + POOL_ASTRAL}
OUTSIDE = {"ascii": POOL_LATIN + POOL_BMP + POOL_ASTRAL + POOL_SURR, "latin-1": POOL_BMP + POOL_ASTRAL + POOL_SURR,
           "utf-8": POOL_SURR}
BAD_UTF8 = ["80", "bf", "c0", "c1", "c080", "c3", "c328", "e0", "e0a0", "e08080", "e09f80", "eda080", "edbfbf",
            "e282", "e28228", "f0", "f09f98", "f0808080", "f08f8080", "f4908080", "f5808080", "ff", "fe", "f09f9828"]
TEXT_HOWS = ["all", "all", "r1", "r2", "r5", "r100", "lines", "r1a", "r3a"]
TEXT_BUFFERINGS = [1, 1, 2, 3, 7, 8, 1024]


def rand_text(rng, enc, n, outside=0):
    """n characters of the encoding's repertoire, `outside` of them replaced by characters it cannot represent"""
    t = [rng.choice(INSIDE[enc]) for _ in range(n)]
    for i in rng.sample(range(n), min(outside, n)):
        t[i] = rng.choice(OUTSIDE[enc])
    return "".join(chr(c) for c in t)


def split_text(rng, text, how):
    if how == "one":
        return [text]
    if how == "none":
        return [] if not text else [text]
    if how == "chars":
        return list(text) or [""]
    if how == "lines":
        return text.splitlines(True) or [""]
    out, i = [], 0
    while i < len(text):
        k = rng.choice([0, 1, 1, 2, 3, 5, 9])
        out.append(text[i:i + k])
        i += k
    return out or [""]


def text_dl(idx, sub, pieces, sized, force):
    return f"D:{idx}:{sub}:{pieces_token(pieces)}:{int(sized)}:{int(force)}:-"


def rand_held_text(rng, enc, n):
    """bytes for a text upload: mostly the encoding of a text, sometimes damaged"""
    data = rand_text(rng, enc, n).encode(enc)
    kind = rng.random()
    if kind < 0.25 and enc != "latin-1":
        bad = bytes.fromhex(rng.choice(BAD_UTF8)) if enc == "utf-8" else bytes([rng.randrange(0x80, 0x100)])
        pos = rng.randint(0, len(data))
        data = data[:pos] + bad + data[pos:]
    elif kind < 0.35:
        data = rand_bytes(rng, max(n, 1))
    elif kind < 0.45 and data:
        data = data[:rng.randint(0, len(data) - 1)]              # cut anywhere, also inside a sequence
    return data


def gen_txt_ops(tier, rng):
    default_style = (True, True, True, [])
    quick = tier == "quick"
    lens = list(range(0, 65)) + ([] if quick else [100, 1000, 2730, 2731, 4095, 4096, 4097, 8191, 8192, 8193, 10000])
    # downloads: every length x encoding; split / buffering / declared / forced vary
    for n in lens:
        for enc in TEXT_ENCODINGS:
            idx, sub = rng.choice(MUXES)
            reps = 3 if n <= 12 else 1
            if not quick:
                reps = 8 if n <= 12 else (3 if n <= 64 else 1)
            for _ in range(reps):
                text = rand_text(rng, enc, n)
                pieces = split_text(rng, text, rng.choice(["one", "chars", "lines", "rand", "rand"]) if n <= 64
                                    else rng.choice(["one", "lines", "rand"]))
                mode = f"{rng.choice(TEXT_BUFFERINGS)}-all"
                yield finish_txt("-", default_style, enc, mode,
                                 [text_dl(idx, sub, pieces, rng.random() < 0.5, rng.random() < 0.3)])
            if 1 <= n <= 24 or (not quick and n <= 64):
                # the same with characters the encoding cannot represent: the caller must get the error; no size
                # is declared (there is no payload length to declare) except the number of bytes handed over
                text = rand_text(rng, enc, n, outside=rng.choice([1, 1, 2, n]))
                pieces = split_text(rng, text, rng.choice(["one", "chars", "rand"]))
                mode = f"{rng.choice(TEXT_BUFFERINGS)}-all"
                yield finish_txt("-", default_style, enc, mode,
                                 [text_dl(idx, sub, pieces, rng.random() < 0.2, rng.random() < 0.3)])
    # no write at all, only empty writes
    for enc in TEXT_ENCODINGS:
        for pieces in ([], [""], ["", ""]):
            for sized in (False, True):
                yield finish_txt("-", default_style, enc, f"{rng.choice(TEXT_BUFFERINGS)}-all",
                                 [text_dl(0x2000, 0, pieces, sized, False)])
    # expedited sizes written in pieces, line ends at every place, line buffering and not
    for text in ["a\n", "\nb", "a\nb", "ab\n", "a\rb", "\n\n\n", "ab\nc", "a\nbc", "abc\n", "a\r\nb", "abcd", "\n"]:
        for how in ("one", "chars", "lines"):
            for buffering in (1, 2, 1024):
                for sized in (True, False):
                    yield finish_txt("-", default_style, "ascii", f"{buffering}-all",
                                     [text_dl(0x2000, 0, split_text(rng, text, how), sized, False)])
    # uploads: every length x encoding x way of reading x answer style
    for n in lens:
        for enc in TEXT_ENCODINGS:
            idx, sub = rng.choice(MUXES)
            for _ in range((2 if n <= 16 else 1) if quick else (6 if n <= 16 else 2)):
                data = rand_held_text(rng, enc, n)
                style = (rng.random() < 0.7, rng.random() < 0.7, rng.random() < 0.8,
                         rng.choice([[], [1] * min(n + 1, 200), [rng.randint(1, 7) for _ in range(min(n + 1, 200))]]))
                mode = f"{rng.choice(TEXT_BUFFERINGS)}-{rng.choice(TEXT_HOWS)}"
                yield finish_txt(f"{idx}.{sub}={c04.hx(data)}", style, enc, mode, [f"U:{idx}:{sub}:-"])
    # every malformed UTF-8 form at the start, in the middle, at the end, across a segment boundary
    for bad in BAD_UTF8:
        for pre, post in (("", ""), ("abc", "de"), ("abcdef", "ghijklmnop"), ("abcdefg", ""), ("", "xyz")):
            data = pre.encode() + bytes.fromhex(bad) + post.encode()
            mode = f"{rng.choice(TEXT_BUFFERINGS)}-{rng.choice(TEXT_HOWS)}"
            yield finish_txt(f"8192.0={c04.hx(data)}", (True, True, True, [rng.randint(1, 7) for _ in range(8)]),
                             "utf-8", mode, ["U:8192:0:-"])
    # line ends of every kind at segment and chunk boundaries, read in every way
    for data in [b"ab\r\ncd\re\n\rf", b"abcdef\r\nghijkl\r", b"abcdefg\r", b"abcdef\r", b"\r", b"\n", b"\r\n", b"\r\r\n\n",
                 b"abcdefg\nabcdefg\rabcdefg\r\n"]:
        for how in TEXT_HOWS[1:]:
            for enc in TEXT_ENCODINGS:
                yield finish_txt(f"8192.0={c04.hx(data)}", (True, True, True, [rng.randint(1, 7) for _ in range(8)]),
                                 enc, f"{rng.choice(TEXT_BUFFERINGS)}-{how}", ["U:8192:0:-"])
    # what was written is what is read: histories of text transfers on one client
    for _ in range(120 if quick else 1200):
        enc = rng.choice(TEXT_ENCODINGS)
        xs, have = [], []
        for _ in range(rng.randint(2, 5)):
            if rng.random() < 0.6 or not have:
                idx, sub = rng.choice(MUXES[:3])
                n = rng.choice([0, 1, 2, 3, 4, 5, 7, 8, 14, rng.randint(0, 40)])
                pieces = split_text(rng, rand_text(rng, enc, n), rng.choice(["one", "chars", "lines", "rand"]))
                have.append((idx, sub))
                xs.append(text_dl(idx, sub, pieces, rng.random() < 0.6, rng.random() < 0.3))
            else:
                idx, sub = rng.choice(have)
                xs.append(f"U:{idx}:{sub}:-")
        if rng.random() < 0.25:
            # … ending with a text that cannot be encoded
            idx, sub = rng.choice(MUXES[:3])
            n = rng.randint(1, 12)
            xs.append(text_dl(idx, sub, split_text(rng, rand_text(rng, enc, n, outside=1), "rand"), False,
                              rng.random() < 0.3))
        style = (rng.random() < 0.5, rng.random() < 0.7, True, [rng.randint(1, 7) for _ in range(10)])
        yield finish_txt("-", style, enc, f"{rng.choice(TEXT_BUFFERINGS)}-{rng.choice(TEXT_HOWS)}", xs)


def gen_ops(tier, rng):
    lens = list(range(0, 65)) + ([] if tier == "quick" else
                                 list(range(65, 1101, 13)) + [1099, 1100] + list(range(4095, 4106)) + [10000])
    default_style = (True, True, True, [])
    # downloads: every length x declared x forced x chunking / buffering
    for n in lens:
        data = rand_bytes(rng, n)
        idx, sub = rng.choice(MUXES)
        for sized in (True, False):
            for force in (False, True):
                chs = chunkings(rng, n) if n <= 64 else [[], [7] * 3, [rng.randint(1, 9) for _ in range(20)]]
                if tier == "quick" and n > 16:
                    chs = rng.sample(chs, 2)
                for offers in chs:
                    yield finish_op("-", default_style, "raw", [dl_token(idx, sub, data, sized, force, offers)])
                modes = MODES[1:] if (n <= 16 or tier == "thorough") else rng.sample(MODES[1:], 2)
                # the same payload handed to a buffered writer in pieces (every split x buffering mode)
                cmodes = CHUNKED_W if (n <= 8 or tier == "thorough") else rng.sample(CHUNKED_W, 2)
                for mode in modes + (cmodes if n else []):
                    yield finish_op("-", default_style, mode, [dl_token(idx, sub, data, sized, force, [])])
    # uploads: every length x style x cuts x dictionary type
    for n in lens:
        data = rand_bytes(rng, n)
        idx, sub = rng.choice(MUXES)
        held = f"{idx}.{sub}={c04.hx(data)}"
        styles = [(si, ex, es) for si in (True, False) for ex in (True, False) for es in (True, False)]
        if n > 4:
            styles = [(True, True, True), (False, True, True)]
        for (si, ex, es) in styles:
            for cuts in ([], [1] * (n + 1), [rng.randint(1, 7) for _ in range(n + 1)]):
                if len(cuts) > 200:
                    cuts = cuts[:200]
                mode = rng.choice(["api", "api", "raw", "b7", "b1024"] + CHUNKED_R)
                t = rng.choice(ODTYPES) if mode == "api" else "x"
                yield finish_op(held, (si, ex, es, cuts), mode, [f"u:{idx}:{sub}:{t}"])
        if n <= 16:
            for t in ODTYPES:
                yield finish_op(held, (True, True, True, []), "api", [f"u:{idx}:{sub}:{t}"])
            if sub >= 1:
                # the same through an array (template member) and through a record member
                for t in rng.sample([x for x in ODTYPES if x not in ("x", "n")], 6):
                    for g in "ar":
                        yield finish_op(held, (True, True, True, []), "api", [f"u:{idx}:{sub}:{g}{t}"])
    # entries declared through an array (sub-index >= 2 exists only through the template member) or a record
    # member, answered with more bytes than the declared type has
    for sub in (1, 2, 255):
        for t in [x for x in ODTYPES if x not in ("x", "n")]:
            for n in (4, 8):
                data = rand_bytes(rng, n)
                for g in "ar":
                    yield finish_op(f"8448.{sub}={c04.hx(data)}", (True, True, True, []), "api", [f"u:8448:{sub}:{g}{t}"])
    yield finish_op("-", default_style, "api", ["u:8192:0:x"])          # nothing held: abort
    # text mode of open(): printable ASCII without line ends (TextIOWrapper translates those by design)
    for n in [0, 1, 3, 4, 5, 7, 8, 14, 20, 64] + ([] if tier == "quick" else [100, 1000]):
        data = bytes(rng.choice(b"ABCXYZabcxyz0189 ._-+/") for _ in range(n))
        idx, sub = rng.choice(MUXES)
        for mode in ("t", "t1"):
            for sized in (True, False):
                yield finish_op("-", default_style, mode, [dl_token(idx, sub, data, sized, False, [])])
            yield finish_op(f"{idx}.{sub}={c04.hx(data)}", (True, True, True, [rng.randint(1, 7) for _ in range(8)]),
                            mode, [f"u:{idx}:{sub}:x"])
    # back-to-back histories on one client
    for _ in range(150 if tier == "quick" else 1500):
        xs = []
        held = {}
        for _ in range(rng.randint(2, 6)):
            idx, sub = rng.choice(MUXES[:3])
            if rng.random() < 0.55 or not held:
                n = rng.choice([0, 1, 4, 5, 7, 8, 14, 15, rng.randint(0, 40)])
                data = rand_bytes(rng, n)
                held[(idx, sub)] = data
                xs.append(dl_token(idx, sub, data, rng.random() < 0.7, rng.random() < 0.3,
                                   rng.choice(chunkings(rng, n))))
            else:
                idx, sub = rng.choice(list(held))
                xs.append(f"u:{idx}:{sub}:x")
        style = (rng.random() < 0.5, rng.random() < 0.7, True, [rng.randint(1, 7) for _ in range(10)])
        yield finish_op("-", style, rng.choice(["raw", "raw", "b7", "b8"]), xs)
    # text mode with real encodings, characters outside them, line ends, every way of reading
    yield from gen_txt_ops(tier, rng)


CORPUS = [
    "seq 8192.0=0102030405060708 1 1 1 - api u:8192:0:12",       # F9: TIME_OF_DAY entry was cut to 1 byte
    "seq 8192.0=01020304 1 1 1 - api u:8192:0:32",                # F9: unknown type 0x20
    # text mode: 'Grüße 25 °C' cannot be written as ascii (the caller must get the error) …
    "txt - 1 1 1 - ascii 1024-all D:8192:0:47.72.fc.df.65.20.32.35.20.b0.43:0:0:-",
    "txt - 1 1 1 - ascii 1-all D:8192:0:47.72/fc.df.65:0:0:2",
    # … nor read as ascii; as latin-1 and utf-8 it goes through unchanged
    "txt 8192.0=4772fcdf6520323520b043 1 1 1 - ascii 1024-all U:8192:0:-",
    "txt 8192.0=4772fcdf6520323520b043 1 1 1 - ascii 1024-r3 U:8192:0:1",
    "txt 8192.0=4772fcdf6520323520b043 1 1 1 - latin-1 1024-all U:8192:0:-",
    "txt - 1 1 1 - utf-8 1024-all D:8192:0:47.72.fc.df.65.20.32.35.20.b0.43:1:0:14,7;U:8192:0:-",
    # an expedited size written in pieces through a line-buffered text stream (flushed before it is complete)
    "txt - 1 1 1 - ascii 1-all D:8192:0:61.a/62:1:0:2,1",
    # line ends: written as they are, read back as universal newlines
    "txt - 1 1 1 - ascii 1-lines D:8192:0:61.d.a/62.d/63.a:0:0:3,2,2;U:8192:0:-",
]

LEVEL_TEXT = ("Lean 4 theorems about the client model composed with an independent strict server specification: for "
              "every multiplexer, payload, declared/undeclared size, forced segmentation and every caller (list of "
              "offer sizes) a completed download commits exactly the payload and the server flags no illegal frame; "
              "for every held value and every answer style / cut list an upload returns exactly the value (the "
              "declared number of leading bytes for fixed-size numeric entries); transfers back-to-back on one "
              "client; abort frames decode to the received code; text mode: strict codec (decode after encode is the "
              "identity, decode is exact), a text download commits exactly the encoded text or the caller gets the "
              "error, a text upload returns the newline-translated decoding of the held bytes or raises; tied to the "
              "code by differential runs over lengths x chunkings x buffering modes x styles x encodings x alphabets")
LEVEL_NOTE = ("trusted: Lean kernel + standard axioms; io buffering classes and queue.Queue are assumed/modelled; the "
              "strict server is my reading of CiA 301, written twice (Lean, Python); correspondence bounded by its "
              "generator")
TECHNIQUE = "Lean 4 proof (client/strict-server invariant, induction over the caller and over segments) + differential correspondence"
