"""C07, op `distlib`: the library's SDO client against the library's own SDO server (LocalNode), one server
response disturbed, followed by undisturbed transfers on the same client and the same server.

`distlib <od> <at> <kind> <xfer;xfer;…>` → `results | requests | delivered | store after each transfer`
"""
import canopen
from canopen.sdo.client import SdoClient

from props import c01, c02, c04

ABORT_TIMEOUT = "8000000000000405"


class LibBus:
    """client requests go synchronously to the LocalNode's server; its answers pass the disturber"""

    def __init__(self, client, rig, dist):
        self.client, self.rig, self.dist = client, rig, dist
        self.requests = []
        self.raised = False

    def send_message(self, can_id, data, remote=False):
        data = bytes(data)
        self.requests.append(data)
        rs, raised = self.rig.request(data)
        self.raised = self.raised or raised
        for r in self.dist(data, rs):
            self.client.on_response(0x581, r, 0.0)


def run(entries, at, kind, xfers):
    from props.c07 import Disturber
    rig = c02.Rig(entries, {})
    client = SdoClient(0x601, 0x581, canopen.ObjectDictionary())
    client.RESPONSE_TIMEOUT = 0.001
    dist = Disturber(at, kind)
    bus = LibBus(client, rig, dist)
    client.network = bus
    results, stores = [], []
    for x in xfers:
        try:
            if x[0] == "d":
                _, idx, sub, data, sized, force, offers = x
                with client.open(idx, sub, "wb", buffering=0, size=len(data) if sized else None,
                                 force_segment=force) as fp:
                    rem, offs = data, list(offers)
                    guard = 2 * len(data) + len(offers) + 2
                    while rem and guard:
                        guard -= 1
                        k = max(offs.pop(0), 1) if offs else len(rem)
                        n = fp.write(rem[:k])
                        rem = rem[n:]
                results.append("ok")
            else:
                results.append("ok " + c04.hx(client.upload(x[1], x[2])))
        except Exception as e:
            results.append(c01.err_name(e))
        stores.append(rig.store_view())
    return results, bus, dist, stores


def run_impl(op):
    a = op.split(" ")
    entries = c02.parse_od(a[1])
    xfers = [c01.parse_xfer(s) for s in a[4].split(";")]
    results, bus, dist, stores = run(entries, int(a[2]), a[3], xfers)
    if bus.raised:
        results.append("SERVER-RAISED")
    return (f"{';'.join(results)} | {c01.show_frames(bus.requests)} | {c01.show_frames(dist.delivered)} | "
            f"{';'.join(stores)}")


def parse_store(s):
    out = {}
    if s != "-":
        for e in s.split("&"):
            k, v = e.split("=")
            i, j = k.split(".")
            out[(int(i), int(j))] = c04.unhx(v)
    return out


def initial_value(entries, idx, sub):
    """bytes the server hands out for an object nobody has written yet (value, else default), or None"""
    e, _code = c02.find_entry(entries, idx, sub)
    if e is None:
        return None
    t, a, v, d = e
    for cand in (v, d):
        if cand is not None:
            try:
                return c02.cia_encode(t, cand)
            except Exception:
                return None
    return None


def oracle(op, out):
    """the property: every transfer either completes with exactly the right data or raises an SDO error; a lost
    response is followed by the time-out abort; transfers after the disturbed one complete correctly — read off
    the LocalNode's own data store"""
    a = op.split(" ")
    entries = c02.parse_od(a[1])
    at, kind = int(a[2]), a[3].split(":")[0]
    xfers = [c01.parse_xfer(s) for s in a[4].split(";")]
    parts = out.split(" | ")
    results = parts[0].split(";")
    if "SERVER-RAISED" in results:
        return "the server raised an exception into the receive path"
    reqs = [] if parts[1] == "-" else parts[1].split(",")
    stores = [parse_store(s) for s in parts[3].split(";")]
    if len(results) != len(xfers) or len(stores) != len(xfers):
        return None
    for n, (x, r) in enumerate(zip(xfers, results)):
        if r == "err other":
            return f"transfer {n} raised something that is neither an SDO communication nor an abort error"
        before = stores[n - 1] if n else {}
        held = before.get((x[1], x[2]))
        if held is None:
            held = initial_value(entries, x[1], x[2])
        if x[0] == "d":
            if r == "ok":
                got = stores[n].get((x[1], x[2]))
                if got != x[3]:
                    return (f"download {n} reported success but the server holds "
                            f"{'nothing' if got is None else c04.hx(got)} instead of {c04.hx(x[3])}")
            elif n > 0:
                return f"the transfer after the disturbed one failed: {r}"
        else:
            if r.startswith("ok"):
                if held is not None and r != "ok " + c04.hx(held):
                    return f"upload {n} reported success with {r}, the server holds {c04.hx(held)}"
            elif n > 0 and not (held is None and r.startswith("err aborted")):
                return f"the transfer after the disturbed one failed: {r}"
    if kind in ("lost", "late") and at < len(reqs) and not reqs[at].startswith("80"):
        if results[0].startswith("ok"):
            return "a lost response went unnoticed"
        if at + 1 >= len(reqs) or reqs[at + 1] != ABORT_TIMEOUT:
            return (f"response to request {at} lost, but the client did not emit the time-out abort frame "
                    f"{ABORT_TIMEOUT} next (sent: {reqs[at + 1] if at + 1 < len(reqs) else 'nothing'})")
    return None


def signature(op, what):
    a = op.split(" ")
    w = what.split(" ")
    return f"distlib:{a[3].split(':')[0]}:{w[0]}:{w[1] if len(w) > 1 else ''}"


def nontrivial(op, out):
    rs = out.split(" | ")[0].split(";")
    return len(rs) >= 2 and all(r.startswith("ok") for r in rs[1:])


def classify(op, out):
    a = op.split(" ")
    rs = out.split(" | ")[0].split(";")
    return f"lib:{a[3].split(':')[0]}:{a[4][0]}:{rs[0].split(' ')[0] + (' ' + rs[0].split(' ')[1] if rs[0].startswith('err') else '')}"


def count_requests(entries, xfer):
    _, bus, _, _ = run(entries, 10 ** 9, "lost", [c01.parse_xfer(xfer)])
    return len(bus.requests)


def gen_ops(tier, rng):
    """every step of expedited and segmented transfers in both directions against the LocalNode server, each
    followed by two undisturbed transfers (both directions, other lengths)"""
    lens = [0, 1, 4, 5, 7, 8, 14, 15] + ([] if tier == "quick" else [3, 13, 21, 22, 29, 50])
    kinds_common = ["lost", "late", "dup", "dupd", "toggle", "scs:0", "scs:3", "scs:7", "mux"]
    idx, sub = 0x2000, 0
    for n in lens:
        data = c01.rand_bytes(rng, n)
        init = c01.rand_bytes(rng, rng.choice([1, 4, 9, 16]))
        entries = [("v", idx, (0x0F, 0, ("x", init), None)), ("v", 0x2001, (0x0A, 0, ("x", b"\x01\x02"), None))]
        odt = c02.od_token(entries)

        def follow():
            d2 = c01.rand_bytes(rng, rng.choice([1, 2, 5, 9, 16, 23]))
            d3 = c01.rand_bytes(rng, rng.choice([0, 3, 8, 15]))
            return rng.choice([
                f"{c01.dl_token(idx, sub, d2, True, False, [])};u:{idx}:{sub}:x",
                f"u:{idx}:{sub}:x;{c01.dl_token(idx, sub, d2, True, rng.random() < 0.3, [])}",
                f"{c01.dl_token(idx, sub, d2, rng.random() < 0.5, False, [])};{c01.dl_token(8193, 0, d3, True, False, [])}",
                f"u:8193:0:x;{c01.dl_token(idx, sub, d2, True, False, [])};u:{idx}:{sub}:x",
            ])
        # disturbed downloads
        for sized in (True, False):
            x1 = c01.dl_token(idx, sub, data, sized, False, [])
            steps = count_requests(entries, x1)
            for at in range(steps):
                kinds = [k for k in kinds_common if (k != "mux" or at == 0) and (k != "dupd" or at < steps - 1)]
                kinds.append("replace:" + c04.hx(bytes([0x80, 0, 0x20, 0]) + (0x06090011).to_bytes(4, "little")))
                kinds.append("stale:6000200000000000")
                if tier == "quick":
                    kinds = ["lost"] + rng.sample(kinds[1:], 3)
                for kind in kinds:
                    yield f"distlib {odt} {at} {kind} {x1};{follow()}"
        # disturbed uploads of a value of length n (written first by an undisturbed download)
        if n >= 1:
            e2 = [("v", idx, (0x0F, 0, ("x", data), None)), entries[1]]
            odt2 = c02.od_token(e2)
            steps = count_requests(e2, f"u:{idx}:{sub}:x")
            for at in range(steps):
                kinds = [k for k in kinds_common if (k != "mux" or at == 0) and (k != "dupd" or at < steps - 1)]
                kinds.append("replace:" + c04.hx(bytes([0x80, 0, 0x20, 0]) + (0x08000000).to_bytes(4, "little")))
                kinds.append("stale:4301200304030201")
                if tier == "quick":
                    kinds = ["lost"] + rng.sample(kinds[1:], 3)
                for kind in kinds:
                    yield f"distlib {odt2} {at} {kind} u:{idx}:{sub}:x;{follow()}"
