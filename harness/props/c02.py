"""C02 — SDO server serves and stores object values exactly, in conformant CiA 301 frames.

Also the shared machinery for C06 (same model, same operations, different emphasis)."""
import logging

import canopen
from canopen import objectdictionary as od

from props import c04

logging.disable(logging.CRITICAL)      # the server logs every generic abort with a traceback

ID = "C02"
PROOF_MODULES = ["CanopenProofs.C02", "CanopenProofs.C02Styles"]
GENERATED = ["Datatypes", "SdoConst"]
THEOREMS = [
    "Canopen.C02.one_response",
    "Canopen.C02.never_raises",
    "Canopen.C02.upload_exact",
    "Canopen.C02.download_exact",
    "Canopen.C02.history_safe",
    "Canopen.C02.upload_exact_styles",
    "Canopen.C02.download_exact_styles",
    "Canopen.C02.unsized_expedited_stores_four",
    "Canopen.C02.download_then_upload_styles",
    "Canopen.C02.inert_frame_keeps_node",
    "Canopen.C02.download_leaves_others",
    "Canopen.C02.stored_value_survives",
]
FINGERPRINT = [
    "canopen.sdo.server:SdoServer.on_request",
    "canopen.sdo.server:SdoServer.init_upload",
    "canopen.sdo.server:SdoServer.segmented_upload",
    "canopen.sdo.server:SdoServer.init_download",
    "canopen.sdo.server:SdoServer.segmented_download",
    "canopen.sdo.server:SdoServer.block_upload",
    "canopen.sdo.server:SdoServer.block_download",
    "canopen.sdo.server:SdoServer.request_aborted",
    "canopen.sdo.server:SdoServer.abort",
    "canopen.node.local:LocalNode.get_data",
    "canopen.node.local:LocalNode.set_data",
    "canopen.node.local:LocalNode._find_object",
    "canopen.objectdictionary:ODArray.__getitem__",
    "canopen.objectdictionary:ODRecord.__getitem__",
    "canopen.objectdictionary:ObjectDictionary.__getitem__",
    "canopen.objectdictionary:ObjectDictionary.__contains__",
]
TRUSTED = c04.TRUSTED + [
    "Spec/SdoClient.lean and its Python twin (ref_upload/ref_download below): my reading of CiA 301 §7.2.4.3",
    "exception plumbing of on_request modelled as SdoAbortedError→code, KeyError→0x06020000, other→0x08000000",
    "ODArray semantics as documented by the library: any sub-index 1..255 takes the attributes of member 1",
]
ASSUMPTIONS = ["index 0x1017 (heartbeat time, NmtSlave.on_write) is outside the model and never generated",
               "frames are 1..8 bytes as the property states (a zero-length frame raises; stated in the model)"]
RULE = ("ops srv (a whole request history on a freshly created node), up / down (strict reference client, "
        "optionally after a junk pre-history), ups / downs (the same client in every style CiA 301 leaves it: "
        "downloads initiated 0x23|n<<2, 0x22 (size not indicated: the four data bytes are the value), 0x21, 0x20, "
        "any segmentation, arbitrary values in the unused command bits and in reserved / no-data bytes of every "
        "request; after the download stray / duplicated segments and other frames that complete no transfer, then "
        "what the node holds, a read-back and uploads of other entries of the same dictionary), every style against "
        "every data type on every run; the strict client rejects a segment that delivers the last announced byte "
        "without the last-segment flag; ODs generated with variables, records and "
        "arrays over all data types, access types and the 16 present/absent source patterns; value lengths 0..64 "
        "(thorough 0..1100); non-trivial = at least one non-abort response / result ok")

ACCESS = {0: "rw", 1: "ro", 2: "wo", 3: "const", 4: "rwr", 5: "rww"}
NUMBER_W = {**{t: w for t, (w, _) in c04.SPEC.items()}, 0x08: 32, 0x11: 64}
ALL_DT = sorted(c04.SPEC) + [0x01, 0x08, 0x11, 0x09, 0x0A, 0x0B, 0x0F, 0x0C, 0x20]


# ---------------------------------------------------------------------- description <-> objects
def val_token(v):
    if v is None:
        return "n"
    k, x = v
    if k == "i":
        return f"i{x}"
    if k == "b":
        return f"b{int(x)}"
    if k == "f":
        return f"f{x}"
    if k == "s":
        return "s" + ".".join(str(c) for c in x)
    return "x" + c04.hx(x)


def parse_val(tok):
    if tok == "n":
        return None
    k, r = tok[0], tok[1:]
    if k == "i":
        return ("i", int(r))
    if k == "b":
        return ("b", r == "1")
    if k == "f":
        return ("f", int(r))
    if k == "s":
        return ("s", [int(c) for c in r.split(".")] if r else [])
    return ("x", c04.unhx(r))


def py_val(v, t, mutable=False):
    if v is None:
        return None
    k, x = v
    if k == "x" and mutable:
        return bytearray(x)       # an application-owned buffer object the library must not consume
    if k == "f":
        eb, mb = (8, 23) if t == 0x08 else (11, 52)
        return c04.bits_to_float(x, eb, mb)
    if k == "s":
        return "".join(chr(c) for c in x)
    return x


def vd_token(vd):
    t, a, v, d = vd
    return f"{'n' if t is None else t},{a},{val_token(v)},{val_token(d)}"


def parse_vd(s):
    t, a, v, d = s.split(",")
    return (None if t == "n" else int(t), int(a), parse_val(v), parse_val(d))


def od_token(entries):
    out = []
    for kind, idx, body in entries:
        if kind == "v":
            out.append(f"v@{idx}@{vd_token(body)}")
        else:
            out.append(f"{kind}@{idx}@" + "|".join(f"{s}={vd_token(vd)}" for s, vd in body))
    return ";".join(out) if out else "-"


def parse_od(s):
    if s == "-":
        return []
    res = []
    for e in s.split(";"):
        kind, idx, body = e.split("@")
        if kind == "v":
            res.append(("v", int(idx), parse_vd(body)))
        else:
            ms = []
            if body:
                for m in body.split("|"):
                    k, vd = m.split("=")
                    ms.append((int(k), parse_vd(vd)))
            res.append((kind, int(idx), ms))
    return res


MUTABLE_VALUES = False        # set by run_impl for `up2`: byte-string values are bytearrays kept by the application


def mk_var(name, idx, sub, vd):
    t, a, v, d = vd
    var = od.ODVariable(name, idx, sub)
    var.data_type = t
    var.access_type = ACCESS[a]
    var.value = py_val(v, t, mutable=MUTABLE_VALUES)
    var.default = py_val(d, t, mutable=MUTABLE_VALUES)
    return var


def build_od(entries):
    d = od.ObjectDictionary()
    for kind, idx, body in entries:
        if kind == "v":
            d.add_object(mk_var(f"o{idx}", idx, 0, body))
        else:
            obj = (od.ODRecord if kind == "r" else od.ODArray)(f"o{idx}", idx)
            for sub, vd in body:
                obj.add_member(mk_var(f"o{idx}_{sub}", idx, sub, vd))
            d.add_object(obj)
    return d


def parse_cb(s):
    if s == "-":
        return {}
    res = {}
    for e in s.split("&"):
        k, v = e.split("~")
        i, j = k.split(".")
        res.setdefault((int(i), int(j)), parse_val(v))     # first binding wins, like `lookup`
    return res


def cb_token(cb):
    return "&".join(f"{i}.{j}~{val_token(v)}" for (i, j), v in cb) if cb else "-"


class RecNet(canopen.Network):
    def __init__(self):
        super().__init__()
        self.sent = []

    def send_message(self, can_id, data, remote=False):
        self.sent.append((can_id, bytes(data)))


class Rig:
    """A freshly created LocalNode on a recording network."""

    def __init__(self, entries, cb):
        self.entries = entries
        self.net = RecNet()
        self.node = canopen.LocalNode(1, build_od(entries))
        self.net.add_node(self.node)
        self.log = []
        types = {}
        for kind, idx, body in entries:
            if kind == "v":
                types[(idx, 0)] = body[0]
            else:
                for sub, vd in body:
                    types[(idx, sub)] = vd[0]
        self.cb = cb
        if cb:
            keep = {}

            def rcb(index, subindex, od, **kw):
                v = cb.get((index, subindex))
                if v is not None and MUTABLE_VALUES and v[0] == "x":
                    # the application hands out the same buffer object every time
                    return keep.setdefault((index, subindex), bytearray(v[1]))
                return None if v is None else py_val(v, od.data_type)
            self.node.add_read_callback(rcb)
            # a second application callback that has nothing to say: the first answer that is not None counts
            self.node.add_read_callback(lambda **kw: None)
        self.node.add_write_callback(
            lambda index, subindex, od, data, **kw: self.log.append((index, subindex, bytes(data))))

    def request(self, frame):
        """→ (list of response frames, raised?)"""
        self.net.sent.clear()
        raised = False
        try:
            self.net.notify(0x601, bytearray(frame), 0.0)
        except Exception:
            raised = True
        return [d for cid, d in self.net.sent if cid == 0x581], raised

    def store_view(self):
        items = []
        for i, subs in self.node.data_store.items():
            for j, b in subs.items():
                items.append((i, j, bytes(b)))
        items.sort()
        return "&".join(f"{i}.{j}={c04.hx(b)}" for i, j, b in items) if items else "-"

    def log_view(self):
        return "&".join(f"{i}.{j}={c04.hx(b)}" for i, j, b in self.log) if self.log else "-"


# ---------------------------------------------------------------------- strict reference client
def mux(idx, sub):
    return bytes([idx % 256, idx // 256 % 256, sub % 256])


def one(resp):
    frames, raised = resp
    if raised or len(frames) != 1 or len(frames[0]) != 8:
        return None
    return frames[0]


def as_abort(r, idx, sub):
    if r[0] == 0x80:
        if r[1:4] == mux(idx, sub):
            return f"abort {int.from_bytes(r[4:8], 'little')}"
        return "protocol"
    return None


def fill_n(fill, k):
    """what the styled client writes into k bytes the server has to ignore"""
    return bytes(fill[:k]).ljust(k, b"\0")


def ref_upload(rig, idx, sub, bits=0, fill=b""):
    """strict upload; `bits` go to the unused bits of the request command bytes, `fill` to the reserved bytes"""
    r = one(rig.request(bytes([0x40 + bits % 32]) + mux(idx, sub) + fill_n(fill, 4)))
    if r is None:
        return "protocol"
    a = as_abort(r, idx, sub)
    if a:
        return a
    c0 = r[0]
    if c0 & 0xE0 != 0x40 or r[1:4] != mux(idx, sub):
        return "protocol"
    if c0 & 0x02:
        if c0 & 0x10:
            return "protocol"
        if c0 & 0x01:
            n = (c0 >> 2) & 3
            if any(r[8 - n:]):
                return "protocol"
            return "ok " + c04.hx(r[4:8 - n])
        if c0 & 0x0C:
            return "protocol"
        return "ok " + c04.hx(r[4:8])
    if c0 & 0x1C or not c0 & 0x01:
        return "protocol"
    size = int.from_bytes(r[4:8], "little")
    acc, t = b"", 0
    for _ in range(size // 7 + 2):
        r = one(rig.request(bytes([0x60 + t + bits % 16]) + fill_n(fill, 7)))
        if r is None:
            return "protocol"
        a = as_abort(r, idx, sub)
        if a:
            return a
        c0 = r[0]
        if c0 & 0xE0 != 0 or (c0 & 0x10) != t:
            return "protocol"
        n = (c0 >> 1) & 7
        seg, pad = r[1:8 - n], r[8 - n:]
        if any(pad):
            return "protocol"
        acc += seg
        if c0 & 1:
            return "ok " + c04.hx(acc) if len(acc) == size else "protocol"
        if not seg:
            return "protocol"
        if len(acc) >= size:
            return "protocol"        # data exhausted, yet the segment is not flagged as the last one
        t ^= 0x10
    return "protocol"


def ref_download(rig, idx, sub, data, expedited, chunks):
    if expedited and 1 <= len(data) <= 4:
        r = one(rig.request(bytes([0x23 + (4 - len(data)) * 4]) + mux(idx, sub) + data.ljust(4, b"\0")))
        if r is None:
            return "protocol"
        a = as_abort(r, idx, sub)
        if a:
            return a
        return "ok -" if r == bytes([0x60]) + mux(idx, sub) + bytes(4) else "protocol"
    r = one(rig.request(bytes([0x21]) + mux(idx, sub) + len(data).to_bytes(4, "little")))
    if r is None:
        return "protocol"
    a = as_abort(r, idx, sub)
    if a:
        return a
    if r != bytes([0x60]) + mux(idx, sub) + bytes(4):
        return "protocol"
    rem, t = data, 0
    for k in list(chunks) + [7] * (len(data) + 1):
        k = min(max(k, 1), 7)
        chunk, rest = rem[:k], rem[k:]
        last = not rest
        r = one(rig.request(bytes([t | (7 - len(chunk)) << 1 | int(last)]) + chunk.ljust(7, b"\0")))
        if r is None:
            return "protocol"
        a = as_abort(r, idx, sub)
        if a:
            return a
        if r != bytes([0x20 | t]) + bytes(7):
            return "protocol"
        if last:
            return "ok -"
        rem, t = rest, t ^ 0x10
    return "protocol"


STYLES = "EUSN"     # expedited with size / expedited without (0x22) / segmented with size / without (0x20)


def eff_style(style, n):
    """the style that can carry n bytes: E needs 1..4, U exactly 4 (the four data bytes ARE the value)"""
    if style == "E" and not 1 <= n <= 4:
        return "S"
    if style == "U" and n != 4:
        return "N"
    return style


def init_download_frame(style, idx, sub, data, bits=0, fill=b""):
    xn, x = bits % 32 // 4 * 4, bits % 32 // 16 * 16
    if style == "E":
        return bytes([0x23 + (4 - len(data)) * 4 + x]) + mux(idx, sub) + data + fill_n(fill, 4 - len(data))
    if style == "U":
        return bytes([0x22 + xn]) + mux(idx, sub) + data
    if style == "S":
        return bytes([0x21 + xn]) + mux(idx, sub) + len(data).to_bytes(4, "little")
    return bytes([0x20 + xn]) + mux(idx, sub) + fill_n(fill, 4)


def ref_download_s(rig, idx, sub, data, style, chunks, bits=0, fill=b""):
    """strict download in one of the four client styles of CiA 301 (own reading, not the model's)"""
    style = eff_style(style, len(data))
    r = one(rig.request(init_download_frame(style, idx, sub, data, bits, fill)))
    if r is None:
        return "protocol"
    a = as_abort(r, idx, sub)
    if a:
        return a
    if r != bytes([0x60]) + mux(idx, sub) + bytes(4):
        return "protocol"
    if style in "EU":
        return "ok -"
    rem, t = data, 0
    for k in list(chunks) + [7] * (len(data) + 1):
        k = min(max(k, 1), 7)
        chunk, rest = rem[:k], rem[k:]
        last = not rest
        r = one(rig.request(bytes([t | (7 - len(chunk)) << 1 | int(last)]) + chunk + fill_n(fill, 7 - len(chunk))))
        if r is None:
            return "protocol"
        a = as_abort(r, idx, sub)
        if a:
            return a
        if r != bytes([0x20 | t]) + bytes(7):
            return "protocol"
        if last:
            return "ok -"
        rem, t = rest, t ^ 0x10
    return "protocol"


def parse_addrs(s):
    return [] if s == "-" else [tuple(int(x) for x in e.split(".")) for e in s.split(",")]


def may_write(f):
    """a request frame that completes a transfer of a value to the node: a download segment flagged as the last
    one, or an expedited initiate download; nothing else may change what the node holds"""
    if not f:
        return False
    c = f[0]
    return (c & 0xE0 == 0x00 and c & 1 != 0) or (c & 0xE0 == 0x20 and c & 2 != 0)


def frames_of(s):
    return [] if s == "-" else [c04.unhx(f) for f in s.split(",")]


def show_sent(frames, raised):
    return ("RAISED:" if raised else "") + ("+".join(c04.hx(f) for f in frames) if frames else "SILENT")


def run_impl(op):
    global MUTABLE_VALUES
    a = op.split(" ")
    entries = parse_od(a[1])
    cb = parse_cb(a[2])
    MUTABLE_VALUES = a[0] == "up2"
    try:
        rig = Rig(entries, cb)
    finally:
        MUTABLE_VALUES_WAS, MUTABLE_VALUES = MUTABLE_VALUES, False
    MUTABLE_VALUES = MUTABLE_VALUES_WAS
    if a[0] == "srv":
        outs = [show_sent(*rig.request(f)) for f in frames_of(a[3])]
        return f"{','.join(outs) if outs else '-'} | store: {rig.store_view()} | log: {rig.log_view()}"
    for f in frames_of(a[3]):
        rig.request(f)
    idx, sub = int(a[4]), int(a[5])
    if a[0] == "up":
        return ref_upload(rig, idx, sub)
    if a[0] == "up2":
        # the same entry uploaded twice (the value is a buffer object the application keeps)
        try:
            return ref_upload(rig, idx, sub) + " ; " + ref_upload(rig, idx, sub)
        finally:
            MUTABLE_VALUES = False
    if a[0] == "ups":
        return ref_upload(rig, idx, sub, int(a[6]), c04.unhx(a[7]))
    if a[0] == "downs":
        data, bits, fill = c04.unhx(a[6]), int(a[9]), c04.unhx(a[10])
        if a[7] not in STYLES:
            return "bad-op"
        x = ref_download_s(rig, idx, sub, data, a[7], c04.unnl(a[8]), bits, fill)
        for f in frames_of(a[11]):
            rig.request(f)
        st, lg = rig.store_view(), rig.log_view()
        y = ref_upload(rig, idx, sub, bits, fill)
        also = "-" if a[12] == "-" else ";".join(
            f"{i}.{j}={ref_upload(rig, i, j, bits, fill)}" for i, j in parse_addrs(a[12]))
        return f"{x} | store: {st} | log: {lg} | readback: {y} | also: {also} | log2: {rig.log_view()}"
    if a[0] == "down":
        data = c04.unhx(a[6])
        x = ref_download(rig, idx, sub, data, a[7] == "1", c04.unnl(a[8]))
        st, lg = rig.store_view(), rig.log_view()
        y = ref_upload(rig, idx, sub)
        return f"{x} | store: {st} | log: {lg} | readback: {y} | log2: {rig.log_view()}"
    return "bad-op"


# ---------------------------------------------------------------------- independent oracle
def cia_encode(t, v):
    """CiA 301 encoding of a typed value, own arithmetic; None = not encodable / not modelled"""
    if v is None:
        return None
    k, x = v
    if k == "x":
        return bytes(x)
    if t in c04.SPEC and k in ("i", "b"):
        w, s = c04.SPEC[t]
        x = int(x)
        lo, hi = (-(1 << (w - 1)), (1 << (w - 1)) - 1) if s else (0, (1 << w) - 1)
        return (x % (1 << w)).to_bytes(w // 8, "little") if lo <= x <= hi else None
    if t == 0x01 and k in ("i", "b"):
        return b"\x01" if x else b"\x00"
    if t in (0x08, 0x11) and k == "f":
        return x.to_bytes(4 if t == 0x08 else 8, "little")
    if t == 0x09 and k == "s":
        return bytes(x) if all(c < 128 for c in x) else None
    if t == 0x0B and k == "s":
        if all(c < 0x10000 and not 0xD800 <= c <= 0xDFFF for c in x):
            return b"".join(c.to_bytes(2, "little") for c in x)
    return None


def find_entry(entries, idx, sub):
    """→ (vd, None) or (None, abort code); arrays follow the library's documented dynamic members"""
    for kind, i, body in entries:
        if i != idx:
            continue
        if kind == "v":
            return body, None
        ms = dict(body)          # generated sub-indices are distinct
        if sub in ms:
            return ms[sub], None
        if kind == "a" and 0 < sub < 256 and 1 in ms:
            t, a, v, d = ms[1]
            return (t, a, None, d), None
        return None, 0x06090011
    return None, 0x06020000


def readable(a):
    return "r" in ACCESS[a] or ACCESS[a] == "const"


def writable(a):
    return "w" in ACCESS[a]


def has_download(frames):
    return any(f and f[0] & 0xE0 in (0x00, 0x20) for f in frames)


def expected_upload(entries, cb, idx, sub, stored=None):
    vd, code = find_entry(entries, idx, sub)
    if vd is None:
        return f"abort {code}"
    t, a, v, d = vd
    if not readable(a):
        return f"abort {0x06010001}"
    src = cb.get((idx, sub))
    if src is None and stored is not None:
        return "ok " + c04.hx(stored)
    if src is None:
        src = v if v is not None else d
    if src is None:
        return f"abort {0x060A0023}"
    b = cia_encode(t, src)
    return None if b is None else "ok " + c04.hx(b)


def check_frames(frames_in, body):
    """the one-response clause, on a `srv` output"""
    outs = [] if body == "-" else body.split(",")
    if len(outs) != len(frames_in):
        return "output does not have one entry per request frame"
    for f, o in zip(frames_in, outs):
        if not 1 <= len(f) <= 8:
            continue
        ccs = f[0] & 0xE0
        if o.startswith("RAISED"):
            return f"request {c04.hx(f)} made the server raise into the receive path"
        if ccs == 0x80:
            continue
        if o == "SILENT":
            return f"request {c04.hx(f)} was not answered"
        rs = o.split("+")
        if len(rs) != 1 or len(c04.unhx(rs[0])) != 8:
            return f"request {c04.hx(f)} got {o}: not exactly one 8-byte response"
        r = c04.unhx(rs[0])
        scs = r[0] & 0xE0
        want = {0x40: 0x40, 0xA0: 0x40, 0x60: 0x00, 0x20: 0x60, 0x00: 0x20}.get(ccs)
        if scs != 0x80 and scs != want:
            return f"request {c04.hx(f)} got {o}: neither the matching response nor an abort"
        if scs == 0x40 and r[0] & 0x02 and (r[0] & 0x10 or not r[0] & 1 and r[0] & 0x0C):
            return f"request {c04.hx(f)} got {o}: reserved bits set in an expedited upload response"
        if scs == 0x40 and len(f) >= 4 and r[1:4] != f[1:4]:
            return f"request {c04.hx(f)} got {o}: multiplexer not echoed"
    return None


def oracle(op, out):
    a = op.split(" ")
    entries = parse_od(a[1])
    cb = parse_cb(a[2])
    pre = frames_of(a[3])
    if a[0] == "srv":
        return check_frames(pre, out.split(" | ")[0])
    idx, sub = int(a[4]), int(a[5])
    if a[0] == "up2":
        first, _, second = out.partition(" ; ")
        w = oracle(" ".join(["up"] + a[1:]), first)
        if w:
            return w
        w = oracle(" ".join(["up"] + a[1:]), second)
        return ("second " + w) if w else None
    if a[0] in ("up", "ups"):
        if out == "protocol":
            return "the strict reference client rejected a response during upload"
        if has_download(pre):
            return None
        exp = expected_upload(entries, cb, idx, sub)
        if exp is not None and out != exp:
            return f"upload gave {out}, the entry's value is {exp}"
        return None
    if a[0] in ("down", "downs"):
        data = c04.unhx(a[6])
        parts = dict(p.split(": ", 1) if ": " in p else ("result", p) for p in out.split(" | "))
        res = parts["result"]
        if res == "protocol" or parts.get("readback") == "protocol":
            return "the strict reference client rejected a response"
        vd, code = find_entry(entries, idx, sub)
        if vd is None:
            exp = f"abort {code}"
        elif not writable(vd[1]):
            exp = f"abort {0x06010002}"
        elif vd[0] in NUMBER_W and 8 * len(data) != NUMBER_W[vd[0]]:
            exp = f"abort {0x06070010}"
        else:
            exp = "ok -"
        if a[0] == "downs" and exp == f"abort {0x06070010}" and res == "ok -":
            # whether a fixed-size entry takes a payload of another length is C06's question; what C02 demands of
            # a download the server *confirmed* is that exactly the transferred bytes are stored
            exp = "ok -"
        if res != exp:
            return f"download gave {res}, expected {exp}"
        if has_download(pre):
            return None
        if a[0] == "downs" and any(may_write(f) for f in frames_of(a[11])):
            return None        # another transfer was completed after ours: the store is no longer ours to predict
        key = f"{idx}.{sub}={c04.hx(data)}"
        if exp == "ok -":
            if parts["store"] != key or parts["log"] != key:
                how = f" (client style {eff_style(a[7], len(data))})" if a[0] == "downs" else ""
                return (f"accepted download{how} stored {parts['store']} / told callbacks {parts['log']}, "
                        f"expected {key}")
            rb = expected_upload(entries, cb, idx, sub, stored=data)
            if rb is not None and parts["readback"] != rb:
                return f"read-back gave {parts['readback']}, expected {rb}"
        else:
            if parts["store"] != "-" or parts["log"] != "-":
                return f"refused write changed the node: store {parts['store']}, callbacks {parts['log']}"
        if parts["log2"] != parts["log"]:
            return "an upload invoked write callbacks"
        if a[0] == "downs" and a[12] != "-":
            # every other entry still serves its own value (other sub-indices of the same index included)
            got = dict(e.split("=", 1) for e in parts["also"].split(";"))
            for i, j in parse_addrs(a[12]):
                g = got.get(f"{i}.{j}")
                if g == "protocol":
                    return f"the strict reference client rejected a response while uploading {i}.{j} afterwards"
                e = expected_upload(entries, cb, i, j, stored=data if exp == "ok -" and (i, j) == (idx, sub) else None)
                if e is not None and g != e:
                    return f"after the download to {idx}.{sub}, upload of {i}.{j} gave {g}, its value is {e}"
    return None


def signature(op, what):
    a = op.split(" ")
    if "raise into the receive path" in what:
        return "srv:raised"
    if "reserved bits" in what:
        return "srv:reserved-bits"
    if "not answered" in what:
        return "srv:silent"
    return f"{a[0]}:{what.split(' ')[0]}"


def nontrivial(op, out):
    if op.startswith("srv"):
        return any(not f.startswith("80") and f not in ("SILENT",) for f in out.split(" | ")[0].replace("+", ",").split(","))
    return out.startswith("ok")


def classify(op, out):
    a = op.split(" ")
    if a[0] == "srv":
        return "srv"
    if a[0] == "downs":
        return f"downs/{eff_style(a[7], len(c04.unhx(a[6])))}:{out.split(' ')[0]}"
    return f"{a[0]}:{out.split(' ')[0]}"


def shrink_candidates(op):
    a = op.split(" ")
    if a[0] == "srv":
        fs = a[3].split(",")
        for i in range(len(fs)):
            if len(fs) > 1:
                yield " ".join(a[:3] + [",".join(fs[:i] + fs[i + 1:])])
    entries = parse_od(a[1])
    for i in range(len(entries)):
        if len(entries) > 1:
            yield " ".join([a[0], od_token(entries[:i] + entries[i + 1:])] + a[2:])
    if a[2] != "-":
        yield " ".join(a[:2] + ["-"] + a[3:])
    if a[0] in ("ups", "downs"):
        if a[3] != "-":
            yield " ".join(a[:3] + ["-"] + a[4:])
        b, f = (6, 7) if a[0] == "ups" else (9, 10)
        if a[b] != "0":
            yield " ".join(a[:b] + ["0"] + a[b + 1:])
        if a[f] != "-":
            yield " ".join(a[:f] + ["-"] + a[f + 1:])
    if a[0] == "downs":
        if a[8] != "7":
            yield " ".join(a[:8] + ["7"] + a[9:])
        for k in (11, 12):
            xs = [] if a[k] == "-" else a[k].split(",")
            for i in range(len(xs)):
                yield " ".join(a[:k] + [",".join(xs[:i] + xs[i + 1:]) or "-"] + a[k + 1:])


# ---------------------------------------------------------------------- generators
INDEX_POOL = [0x1000, 0x1018, 0x1200, 0x1F80, 0x2000, 0x2001, 0x2100, 0x6040, 0x6041, 0xFFFF, 0x0001, 0x00FF]


def rand_value(t, rng, maxlen):
    """a type-appropriate value, or None"""
    if t in c04.SPEC:
        w, s = c04.SPEC[t]
        lo, hi = (-(1 << (w - 1)), (1 << (w - 1)) - 1) if s else (0, (1 << w) - 1)
        return ("i", rng.choice([lo, hi, 0, 1, rng.randint(lo, hi)]))
    if t == 0x01:
        return ("b", rng.random() < 0.5)
    if t in (0x08, 0x11):
        w = 32 if t == 0x08 else 64
        emax = 255 if t == 0x08 else 2047
        mb = 23 if t == 0x08 else 52
        return ("f", (rng.getrandbits(1) << (w - 1)) | (rng.randrange(0, emax) << mb) | rng.getrandbits(mb))
    n = rng.choice([0, 1, 3, 4, 5, 7, 8, 14, 15, rng.randint(0, maxlen)])
    if t == 0x09:
        return ("s", [rng.randrange(1, 128) for _ in range(n)])
    if t == 0x0B:
        return ("s", [rng.choice([rng.randrange(1, 0xD800), rng.randrange(0xE000, 0x10000)]) for _ in range(n)])
    return ("x", bytes(rng.getrandbits(8) for _ in range(n)))


def rand_vd(rng, maxlen, t=None, access=None):
    if t is None:
        t = rng.choice(ALL_DT)
    a = access if access is not None else rng.choice([0, 0, 0, 1, 2, 3, 4, 5])
    pat = rng.randrange(4)
    v = rand_value(t, rng, maxlen) if pat & 1 else None
    d = rand_value(t, rng, maxlen) if pat & 2 else None
    return (t, a, v, d)


def rand_od(rng, maxlen, n=None):
    idxs = rng.sample(INDEX_POOL + [rng.randrange(1, 0x10000) for _ in range(4)], n or rng.randint(2, 6))
    entries = []
    for idx in dict.fromkeys(idxs):      # an index is defined once (a random one may coincide with one of the pool)
        if idx == 0x1017 or 0x1400 <= idx < 0x1C00:      # heartbeat time / PDO parameters: other models
            continue
        kind = rng.choice("vvra")
        if kind == "v":
            entries.append(("v", idx, rand_vd(rng, maxlen)))
        else:
            subs = sorted(rng.sample(range(0, 6), rng.randint(0, 4)) + ([255] if rng.random() < 0.2 else []))
            if kind == "a" and rng.random() < 0.7 and 1 not in subs:
                subs = sorted(subs + [1])
            entries.append((kind, idx, [(s, rand_vd(rng, maxlen)) for s in subs]))
    return entries


def addresses(entries, rng):
    """addresses worth probing: every defined one, undefined subs, an undefined index"""
    out = []
    for kind, idx, body in entries:
        if kind == "v":
            out += [(idx, 0), (idx, 1)]
        else:
            out += [(idx, s) for s, _ in body] + [(idx, 0), (idx, 1), (idx, 7), (idx, 255)]
    used = {i for _, i, _ in entries}
    out.append((next(i for i in (0x3000, 0x3001, 0x3002) if i not in used), 0))
    return list(dict.fromkeys(out))


def rand_cb(entries, rng, maxlen):
    cb = []
    for kind, idx, body in entries:
        subs = [(0, body)] if kind == "v" else body
        for sub, vd in subs:
            if rng.random() < 0.25:
                cb.append(((idx, sub), rand_value(vd[0], rng, maxlen)))
    return cb


def rand_rsv(rng):
    """what a client writes where the server has to ignore it: (command bits, fill bytes); plain zeros half the time"""
    if rng.random() < 0.5:
        return 0, b""
    return rng.randrange(32), bytes(rng.getrandbits(8) for _ in range(rng.choice([1, 4, 7, 7])))


def rand_post(rng, entries=()):
    """frames arriving after a completed download that do not complete another one: stray / duplicated download
    segments with either toggle (no last flag), upload traffic, a segmented initiate, a client abort, junk; now and
    then (1 in 8) any junk at all — the oracle then only judges the responses"""
    r = rng.random()
    if r < 0.35:
        return []
    if r < 0.475:
        return [junk_frame(rng) for _ in range(rng.randint(1, 3))]
    fs = []
    for _ in range(rng.randint(1, 3)):
        k = rng.randrange(6)
        if k <= 2:      # stray segments, both toggles so that one of them is the expected one
            n = rng.randint(0, 6)
            body = bytes(rng.getrandbits(8) for _ in range(7))
            order = [0x00, 0x10] if rng.random() < 0.5 else [0x10, 0x00]
            fs += [bytes([t | n << 1]) + body for t in order[:rng.choice([1, 2, 2])]]
        elif k == 3:
            idx, sub = rng.choice(addresses(entries, rng)) if entries else (0x2000, 0)
            fs.append(bytes([0x40]) + mux(idx, sub) + bytes(4))
            fs += [bytes([0x60 | (0x10 if i % 2 else 0)]) + bytes(7) for i in range(rng.randint(0, 3))]
        elif k == 4:
            fs.append(bytes([rng.choice([0x21, 0x20])]) + mux(*(rng.choice(addresses(entries, rng)) if entries else (0x2000, 0)))
                      + rng.randint(0, 20).to_bytes(4, "little"))
        else:
            fs.append(rng.choice([bytes([0x80, 0, 0, 0, 0, 0, 4, 5]), bytes([0xE0]) + bytes(7), bytes([0x60]) + bytes(7), b"\x70"]))
    return [f for f in fs if not may_write(f)]


def fr_token(fs):
    return ",".join(c04.hx(f) for f in fs) if fs else "-"


def style_lengths(t, rng, maxlen):
    """payload lengths worth downloading to an entry of type t in every style: 4 (the only length 0x22 carries),
    the type's own size, and a few others around the expedited / segment boundaries"""
    ns = [4]
    if t in NUMBER_W:
        ns.append(NUMBER_W[t] // 8)
    ns.append(rng.choice([0, 1, 2, 3, 5, 6, 7, 8, 13, 14, 15, rng.randint(0, maxlen)]))
    return list(dict.fromkeys(ns))


def junk_frame(rng):
    kind = rng.randrange(6)
    if kind == 0:
        return bytes(rng.getrandbits(8) for _ in range(rng.randint(1, 8)))
    cs = rng.choice([0x00, 0x10, 0x20, 0x21, 0x22, 0x23, 0x2F, 0x40, 0x60, 0x70, 0x80, 0xA0, 0xC0, 0xE0,
                     0x01, 0x11, 0x0F, 0x1F, rng.getrandbits(8)])
    body = bytes(rng.choice([0, rng.getrandbits(8)]) for _ in range(7))
    f = bytes([cs]) + body
    return f[:rng.randint(1, 8)] if kind == 1 else f


def valid_transfer_frames(entries, rng, maxlen):
    """frames of a by-the-book transfer to a generated address (responses are not needed to build them)"""
    idx, sub = rng.choice(addresses(entries, rng))
    bits, fill = rand_rsv(rng)
    if rng.random() < 0.5:
        n = rng.randint(0, 12)
        return [bytes([0x40 + bits % 32]) + mux(idx, sub) + fill_n(fill, 4)] + \
            [bytes([0x60 + (0x10 if k % 2 else 0) + bits % 16]) + fill_n(fill, 7) for k in range(n)]
    data = bytes(rng.getrandbits(8) for _ in range(rng.choice([0, 1, 2, 4, 4, 5, 7, 8, 14, rng.randint(0, maxlen)])))
    style = eff_style(rng.choice(STYLES), len(data))      # every client style of an initiate download
    fr = [init_download_frame(style, idx, sub, data, bits, fill)]
    if style in "EU":
        return fr
    rem, t = data, 0
    while True:
        k = rng.randint(1, 7)
        chunk, rem = rem[:k], rem[k:]
        fr.append(bytes([t | (7 - len(chunk)) << 1 | int(not rem)]) + chunk + fill_n(fill, 7 - len(chunk)))
        t ^= 0x10
        if not rem:
            return fr


def history(entries, rng, maxlen):
    fs = []
    for _ in range(rng.randint(1, 5)):
        r = rng.random()
        if r < 0.55:
            t = valid_transfer_frames(entries, rng, maxlen)
            # splice junk into the transfer now and then
            if rng.random() < 0.3 and len(t) > 1:
                t.insert(rng.randrange(1, len(t)), junk_frame(rng))
            fs += t
        else:
            fs += [junk_frame(rng) for _ in range(rng.randint(1, 3))]
    return fs


FRESH_JUNK = ["e000000000000000", "6000000000000000", "7000000000000000", "0000000000000000", "c000000000000000",
              "40", "4000", "400020", "20", "2300", "80", "8000000000", "a0", "ff"]


def gen_ops(tier, rng):
    maxlen = 64 if tier == "quick" else 1100
    n_od = 60 if tier == "quick" else 500
    # every frame that aborts on a freshly created node (F5), on an empty and on a small OD
    small = [("v", 0x2000, (0x06, 0, ("i", 7), None))]
    for f in FRESH_JUNK:
        yield f"srv - - {f}"
        yield f"srv {od_token(small)} - {f}"
    # every value length 0..64 (0..1100), all source patterns, through the strict client
    lens = list(range(0, 65)) + ([] if tier == "quick" else list(range(65, 1101, 7)) + [1099, 1100, 4095, 10000])
    for n in lens:
        for t in (0x0A, 0x0F, 0x09):
            val = ("x", bytes(rng.getrandbits(8) for _ in range(n))) if t != 0x09 else ("s", [rng.randrange(1, 128) for _ in range(n)])
            for pat in range(1, 4):
                vd = (t, 0, val if pat & 1 else None, rand_value(t, rng, 8) if pat & 2 else None)
                yield f"up {od_token([('v', 0x2000, vd)])} - - 8192 0"
            yield f"up {od_token([('v', 0x2000, (t, 0, None, None))])} {cb_token([((0x2000, 0), val)])} - 8192 0"
            if t != 0x09 and n in (0, 1, 4, 5, 7, 8, 20, 64):
                yield f"up2 {od_token([('v', 0x2000, (t, 0, val, None))])} - - 8192 0"
                yield f"up2 {od_token([('v', 0x2000, (t, 0, None, None))])} {cb_token([((0x2000, 0), val)])} - 8192 0"
            data = val[1] if t != 0x09 else bytes(val[1])
            chunks = rng.choice([[7], [1], [3], [rng.randint(1, 7) for _ in range(10)]])
            yield (f"down {od_token([('r', 0x2000, [(2, (t, 0, None, None))])])} - - 8192 2 {c04.hx(data)} "
                   f"{int(rng.random() < 0.5)} {c04.nl(chunks * 3)}")
    # every client style against every data type (and an entry without one): downloads of 4 bytes, of the type's own
    # size and of another length, in an array member / a variable; uploads by a client that fills the reserved places
    for t in ALL_DT + [None]:
        for style in STYLES:
            for n in style_lengths(t, rng, min(maxlen, 40)):
                data = bytes(rng.getrandbits(8) for _ in range(n))
                bits, fill = rand_rsv(rng)
                ent = rng.choice([[("v", 0x2000, (t, 0, None, None))],
                                  [("a", 0x2000, [(0, (0x05, 1, ("i", 3), None)), (1, (t, rng.choice([0, 2, 5]), None, None))])],
                                  [("r", 0x2000, [(1, rand_vd(rng, 8, t=t, access=0)), (2, rand_vd(rng, 8, access=0)),
                                                  (3, rand_vd(rng, 8))]), ("v", 0x2001, rand_vd(rng, 8))]])
                sub = 0 if ent[0][0] == "v" else 1
                also = {"v": "8192.0", "a": "8192.0,8192.2", "r": "8192.2,8192.3,8193.0,8192.1"}[ent[0][0]]
                yield (f"downs {od_token(ent)} - - 8192 {sub} {c04.hx(data)} {style} "
                       f"{c04.nl([rng.randint(1, 7) for _ in range(6)])} {bits} {c04.hx(fill)} "
                       f"{fr_token(rand_post(rng, ent))} {also}")
        for k in range(2 if tier == "quick" else 6):
            bits, fill = rand_rsv(rng) if k else (rng.randrange(1, 32), bytes(rng.randrange(1, 256) for _ in range(7)))
            v = rand_value(t if t is not None else 0x0A, rng, min(maxlen, 40))
            src = rng.randrange(3)
            vd = (t, rng.choice([0, 1, 3]), v if src == 0 else None, v if src == 1 else None)
            cbs = cb_token([((0x2000, 0), v)]) if src == 2 else "-"
            yield f"ups {od_token([('v', 0x2000, vd)])} {cbs} - 8192 0 {bits} {c04.hx(fill)}"
    for n in ([0, 1, 4, 5, 7, 8, 64] if tier == "quick" else lens):
        for style in "SN":
            data = bytes(rng.getrandbits(8) for _ in range(n))
            bits, fill = rand_rsv(rng)
            # … each followed by stray segments of both toggles (the buffer the server assembled is not the value)
            stray = [bytes([t | rng.randint(0, 6) << 1]) + bytes(rng.getrandbits(8) for _ in range(7)) for t in (0x00, 0x10)]
            yield (f"downs {od_token([('v', 0x2000, (rng.choice([0x0A, 0x0F, None]), 0, None, None))])} - - 8192 0 "
                   f"{c04.hx(data)} {style} {c04.nl([rng.randint(1, 7) for _ in range(8)])} {bits} {c04.hx(fill)} "
                   f"{fr_token(stray)} -")
    # generated dictionaries: probe every address, both directions, with and without junk before
    for _ in range(n_od):
        entries = rand_od(rng, min(maxlen, 40))
        ods = od_token(entries)
        cb = rand_cb(entries, rng, 20)
        cbs = cb_token(cb)
        addrs = addresses(entries, rng)
        for (idx, sub) in addrs:
            pre = "-" if rng.random() < 0.6 else ",".join(c04.hx(junk_frame(rng)) for _ in range(rng.randint(1, 3)))
            yield f"up {ods} {cbs if rng.random() < 0.5 else '-'} {pre} {idx} {sub}"
            vd, _ = find_entry(entries, idx, sub)
            t = vd[0] if vd else None
            if t in NUMBER_W and rng.random() < 0.7:
                n = rng.choice([NUMBER_W[t] // 8] * 3 + [rng.randint(0, 9)])
            else:
                n = rng.choice([0, 1, 2, 4, 5, 7, 8, 14, 15, rng.randint(0, min(maxlen, 40))])
            data = bytes(rng.getrandbits(8) for _ in range(n))
            chunks = [rng.randint(1, 7) for _ in range(12)]
            yield (f"down {ods} {cbs if rng.random() < 0.3 else '-'} {pre} {idx} {sub} {c04.hx(data)} "
                   f"{int(rng.random() < 0.5)} {c04.nl(chunks)}")
            if rng.random() < 0.5:
                # the same address through a client of another style
                bits, fill = rand_rsv(rng)
                if rng.random() < 0.4:
                    data = bytes(rng.getrandbits(8) for _ in range(4))
                same = [a for a in addrs if a[0] == idx and a != (idx, sub)]
                also = rng.sample(same, min(len(same), 2)) + rng.sample(addrs, min(len(addrs), 2))
                yield (f"downs {ods} {cbs if rng.random() < 0.3 else '-'} {pre} {idx} {sub} {c04.hx(data)} "
                       f"{rng.choice(STYLES)} {c04.nl(chunks[:6])} {bits} {c04.hx(fill)} "
                       f"{fr_token(rand_post(rng, entries))} {','.join(f'{i}.{j}' for i, j in also) or '-'}")
            if rng.random() < 0.3:
                bits, fill = rand_rsv(rng)
                yield f"ups {ods} {cbs if rng.random() < 0.5 else '-'} {pre} {idx} {sub} {bits} {c04.hx(fill)}"
        for _ in range(3):
            yield f"srv {ods} {cbs if rng.random() < 0.3 else '-'} {','.join(c04.hx(f) for f in history(entries, rng, min(maxlen, 30)))}"


CORPUS = [
    "srv - - e000000000000000",                      # F5: fresh server, unknown command
    "srv - - 6000000000000000,40",                   # F5: segment request / short frame on a fresh server
    "up v@8192@10,0,x-,n - - 8192 0",                # F6: empty OCTET_STRING value
    "up v@8192@9,0,n,s - - 8192 0",                  # F6: empty VISIBLE_STRING default
    # the four client styles of a download (0x23|n<<2, 0x22, 0x21, 0x20) to a string, a DOMAIN and a 32-bit entry
    "downs v@8192@9,0,n,n - - 8192 0 41424344 U 7 0 - - -",
    "downs v@8192@15,0,n,n - - 8192 0 11223344 U 7 28 a5a5a5a5a5a5a5 - -",
    "downs v@8192@7,0,n,n - - 8192 0 11223344 U 7 0 - - -",
    "downs v@8192@10,0,n,n - - 8192 0 11223344 E 7 16 - - -",
    "downs v@8192@10,0,n,n - - 8192 0 112233 E 7 0 ffffffff - -",
    "downs v@8192@10,0,n,n - - 8192 0 1122334455667788 N 3,1,2 28 ffffffffffffff - -",
    "downs v@8192@10,0,n,n - - 8192 0 1122334455667788 S 3,1,2 28 ffffffffffffff - -",
    "downs v@8192@10,0,n,n - - 8192 0 - N 7 0 - - -",
    # a completed segmented download, then stray segments with either toggle: the value stays the ten bytes
    "downs v@8192@10,0,n,n - - 8192 0 30313233343536373839 S 7 0 - 0058595a00000000,1058595a00000000 -",
    # a download to one member of a record / array: the other members still serve their defaults
    "downs r@8448@1=7,0,n,i1|2=7,0,n,i3405691582|3=9,1,n,s102.97.99 - - 8448 1 01000000 E 7 0 - - 8448.2,8448.3,8448.1",
    "downs a@8448@0=5,1,i2,n|1=6,0,n,i7|2=6,0,i9,n - - 8448 1 0100 S 7 0 - - 8448.0,8448.2,8448.3",
    "up v@8192@10,0,x30313233343536,n - - 8192 0",           # a value of exactly one full segment: that segment is the last
    "up v@8192@10,0,x3031323334353637383930313233,n - - 8192 0",
    "ups v@8192@10,0,x0102030405060708,n - - 8192 0 31 ffffffffffffff",
    "ups v@8192@7,0,i305419896,n - - 8192 0 31 ffffffffffffff",
]

LEVEL_TEXT = ("Lean 4 theorems about the server/local-node model for every request frame and history: exactly one "
              "well-formed 8-byte response with the matching specifier or an abort and nothing raised (any state, any "
              "1..8-byte frame); a strict reference client uploads exactly the bytes of the first present source for "
              "every value length, and every accepted download (expedited or any segmentation) stores exactly the "
              "payload, tells the write callbacks exactly that, and reads back — for every client style CiA 301 "
              "allows (initiate 0x23|n<<2, 0x22 = all four data bytes, 0x21, 0x20; anything in unused command bits "
              "and reserved / no-data bytes); frames that complete no transfer leave the node as it is, so the stored "
              "value survives stray segments and other entries keep their values; tied to the code by differential runs "
              "of whole request histories and strict-client transfers on generated dictionaries")
LEVEL_NOTE = ("trusted: Lean kernel + standard axioms; exception plumbing, struct and bytearray slicing are modelled; "
              "the strict client is my reading of CiA 301 (written twice: Lean and Python); ODArray dynamic members "
              "follow the library's documented semantics; 0x1017 excluded; correspondence bounded by its generator")
TECHNIQUE = "Lean 4 proof (invariants over request histories, induction over segments) + differential correspondence"
