"""C17 — periodic transmissions run exactly when and with what the API state says.

One operation line is one whole history of API calls on a `canopen.Network` attached to a
simulated bus whose `send_periodic` returns *recording* cyclic tasks (snapshot of id, payload,
remote flag and period; `stop()` clears a flag), in two flavours: with and without `modify_data`.

    m=<0|1> [t=<0|1>] sc=<d|cob> {L=<id>,<0x1017 default|n>} {R=<id>} {P=<node>,<key>,<cob|n>,<nvars>} -- op …

    ss:<µs|n> sx                      network.sync.start(period) / stop()      (`n`: start() without argument)
    sp:<µs|n>                         network.sync.period = µs/1e6 | None      (the attribute start() falls back on)
    ps:<n>,<k>,<µs|n> px:<n>,<k>      PdoMap.start(period) / stop()   (key k: rpdo[k], 100+k: tpdo[k])
    pp:<n>,<k>,<µs|n>                 pdo.period = µs/1e6 | None
    pr:<n>,<k>,<dt µs>,<hex>          a frame of this map arrives dt µs after the previous event of the environment:
                                      pdo.on_message(pdo.cob_id, bytearray(hex), clock/1e6) (measures `period`)
    pu:<n>,<k>,<hex>                  pdo.data = bytearray(hex); pdo.update()
    pv:<n>,<k>,<i>,<v>                pdo[i].raw = v      (i-th mapped UNSIGNED8)
    pa:<n>                            network[n].pdo.stop()
    hs:<n>,<ms> hx:<n> hu:<n>         NmtSlave.start_heartbeat / stop_heartbeat / update_heartbeat
    hw:<n>,<v>                        network[n].sdo[0x1017].raw = v
    hd:<n>,<v>                        the same write as an expedited SDO download frame on 0x600+n
    ow:<n>,<idx>,<hex>                NmtSlave.on_write(idx, data)
    cm:<n>,<code>  st:<n>,<NAME>      NmtSlave.send_command(code) / nmt.state = "NAME"
    nc:<hex>                          network.notify(0, data)  (NMT command frame)
    gs:<n>,<µs> gx:<n>                NmtMaster.start_node_guarding / stop_node_guarding (n = 0: network.nmt)
    dc                                network.disconnect()
    wn / we                           `with network: pass` / `with network: raise RigError` (caught outside the block)
    xn / xe                           network.__exit__(None, None, None) / network.__exit__(RigError, RigError(), None)
    cn                                network.connect()  (python-can's Bus/Notifier replaced by the simulated ones)

`t=1`: the simulated bus stops the cyclic tasks created through it when it is shut down (like python-can's
`BusABC.shutdown`) and a task created through a shut-down bus never transmits; `t=0` (default): tasks stop only
through their own `stop()`.

Output per call: `ok|err;<live tasks>;<api>` joined by `|`.
"""
import itertools
import logging

import canopen
from canopen import objectdictionary as od
from canopen.objectdictionary import datatypes as dt

logging.getLogger("canopen").setLevel(logging.CRITICAL + 1)

ID = "C17"
PROOF_MODULES = ["CanopenProofs.C17"]
GENERATED = ["PeriodicTables"]
THEOREMS = [
    "Canopen.C17.at_most_one",
    "Canopen.C17.running_iff_api",
    "Canopen.C17.live_is_current",
    "Canopen.C17.state_change_clean",
    "Canopen.C17.restart_replaces",
    "Canopen.C17.restart_without_period",
    "Canopen.C17.start_without_period_refused",
    "Canopen.C17.period_kept",
    "Canopen.C17.received_frame_measures_period",
    "Canopen.C17.stopped_means_none",
    "Canopen.C17.heartbeat_zero_stops",
    "Canopen.C17.disconnect_stops_pdo",
    "Canopen.C17.exit_is_disconnect",
    "Canopen.C17.disconnect_stops_all",
    "Canopen.C17.connect_connects",
    "Canopen.C17.restart_after_reconnect",
    "Canopen.C17.heartbeat_payload_is_byte",
    "Canopen.C17.unrepaired_sync_start_leaks",
    "Canopen.C17.raising_state_change_breaks_current",
    "Canopen.C17.period_assignment_while_running_breaks_current",
]
FINGERPRINT = [
    "canopen.sync:SyncProducer.start",
    "canopen.sync:SyncProducer.stop",
    "canopen.pdo.base:PdoMap.start",
    "canopen.pdo.base:PdoMap.stop",
    "canopen.pdo.base:PdoMap.update",
    "canopen.pdo.base:PdoMap.on_message",
    "canopen.pdo.base:PdoBase.stop",
    "canopen.pdo.base:PdoVariable.set_data",
    "canopen.nmt:NmtBase.send_command",
    "canopen.nmt:NmtBase.on_command",
    "canopen.nmt:NmtSlave",
    "canopen.nmt:NmtMaster.start_node_guarding",
    "canopen.nmt:NmtMaster.stop_node_guarding",
    "canopen.network:Network.send_periodic",
    "canopen.network:Network.disconnect",
    "canopen.network:Network.connect",
    "canopen.network:Network.__enter__",
    "canopen.network:Network.__exit__",
    "canopen.network:PeriodicMessageTask",
    "canopen.node.local:LocalNode.set_data",
]
TRUSTED = [
    "python-can's cyclic tasks are replaced by recording tasks that snapshot id/payload/remote/period "
    "when created (and when modify_data is called) and stop transmitting exactly when stop() is "
    "called; real schedulers, threads and bus.shutdown() are not exercised",
    "two flavours of the simulated bus at shutdown(): t=0 leaves its cyclic tasks alone (everything canopen does not "
    "stop itself stays visible), t=1 stops the tasks created through it and never transmits for a task created "
    "after shutdown (python-can's BusABC.shutdown); the Lean model describes t=0 — for t=1 histories the return "
    "flags and the API state are compared with the model and what is live on the bus is judged by the oracle only; "
    "connect() runs with can.Bus / can.Notifier replaced by the simulated ones for the duration of the call",
    "ownership of a bus task (which producer created it) is a ghost field in the model; the oracle "
    "attributes tasks to producers by (CAN id, remote flag), which the generator keeps distinct",
]
ASSUMPTIONS = [
    "`live_is_current` is claimed for histories in which no NmtSlave.send_command / state setter "
    "raised after having changed the NMT state (boot-up message on a disconnected network, boot with "
    "an unreadable 0x1017): such a call leaves the old state byte in a running heartbeat — proved "
    "necessary in Lean (`raising_state_change_breaks_current`), modelled and compared; the oracle stops "
    "checking currentness (only) from such a call on, the other clauses stay checked",
    "assigning the `period` attribute of a producer whose task is running does not reach the task (it keeps the "
    "period it was started with): such assignments are modelled and compared, excluded from `live_is_current` by "
    "`CleanRun` (proved necessary: `period_assignment_while_running_breaks_current`), and the oracle stops "
    "checking the period (only) of that producer until its next start or stop",
    "frames received for a PDO map carry non-decreasing time stamps (the harness's clock only moves forward); "
    "the oracle judges the measured period only for maps that have never been started (what `on_message` does "
    "with frames that arrive while or after the map transmitted is compared with the model, not judged)",
    "attribute assignments other than through the listed calls (cob_id, data without update()) "
    "and removal of nodes from the network are outside the histories considered",
]
RULE = ("whole call histories over SYNC, PDO maps of local and remote nodes, heartbeat (direct calls, "
        "0x1017 writes locally and by SDO frame, NMT state changes by send_command / state setter / NMT "
        "frame) and node guarding, on both bus flavours, every way of disconnecting (disconnect(), `with network:` "
        "left normally and through an exception, __exit__ called directly, twice) and connect() again, on buses that "
        "do / do not stop their tasks at shutdown(), including start() without a period after the period "
        "was given by an earlier start, by assignment to the `period` attribute or measured from received "
        "frames; exhaustive sequences of length <= 2 (quick) / "
        "<= 3 (thorough) over a 38-call alphabet on a small configuration, every running-set / way of disconnecting / "
        "0..2 calls afterwards history on the four bus variants, every give / 0..2 intermediate calls / "
        "restart-without-period history of SYNC and of a PDO map, plus seeded random histories "
        "(length 1..40 / 1..120) over random configurations with periods in {1 us .. 1 h}, heartbeat "
        "times in {0, 1, .., 65535}, payload lengths 0..8; non-trivial = at least one cyclic task was "
        "live after some call")

STATE_NUM = {"INITIALISING": 0, "STOPPED": 4, "OPERATIONAL": 5, "SLEEP": 80, "STANDBY": 96,
             "PRE-OPERATIONAL": 127}
HB_INDEX = 0x1017


def hx(b):
    return bytes(b).hex() if len(b) else "-"


def unhx(s):
    return b"" if s == "-" else bytes.fromhex(s)


# ---- simulated bus ---------------------------------------------------------------------------
class RecTask:
    """recording cyclic task without modify_data"""

    def __init__(self, idx, msg, period):
        self.idx = idx
        self.arb = msg.arbitration_id
        self.ext = bool(msg.is_extended_id)
        self.data = bytes(msg.data)
        self.remote = bool(msg.is_remote_frame)
        self.period = period
        self.live = True
        self.msg_obj = msg            # a producer restarts with the same message object

    def stop(self):
        self.live = False


class ModTask(RecTask):
    """recording cyclic task with modify_data"""

    def modify_data(self, msg):
        self.data = bytes(msg.data)


class Recorder:
    """what all bus objects of one history share: the cyclic tasks in creation order"""

    def __init__(self):
        self.tasks = []
        self.overlaps = 0


class FakeNotifier:
    exception = None

    def __init__(self, bus, listeners, timeout=1.0):
        self.bus, self.stopped = bus, False

    def stop(self, timeout=5.0):
        self.stopped = True


class RigError(Exception):
    """raised inside `with network:` by the rig, caught outside"""


class FakeBus:
    channel_info = "simulated"

    def __init__(self, modify, rec=None, tied=False):
        self.modify = modify
        self.rec = rec if rec is not None else Recorder()
        self.tasks = self.rec.tasks
        self.tied = tied
        self.own = []
        self.sent = []
        self.down = False

    def send(self, msg, timeout=None):
        self.sent.append((msg.arbitration_id, bytes(msg.data)))

    def send_periodic(self, msg, period, *args, **kwargs):
        # "at every moment at most one task per producer": a producer that starts its replacement while its
        # earlier task (same message object) is still live has two tasks on the bus at this moment
        if any(t.live and t.msg_obj is msg for t in self.tasks):
            self.rec.overlaps += 1
        t = (ModTask if self.modify else RecTask)(len(self.tasks), msg, period)
        if self.tied and self.down:
            t.live = False            # a shut-down bus transmits nothing
        self.tasks.append(t)
        self.own.append(t)
        return t

    def shutdown(self):
        # t=0: deliberately does not stop the tasks: what is observed is what canopen itself stops
        self.down = True
        if self.tied:
            for t in self.own:
                t.live = False


# ---- configuration ---------------------------------------------------------------------------
def parse(op):
    toks = op.split(" ")
    cfg = {"m": 0, "t": 0, "sc": None, "L": [], "R": [], "P": []}
    i = 0
    while i < len(toks) and toks[i] != "--":
        k, _, v = toks[i].partition("=")
        if k == "m":
            cfg["m"] = int(v)
        elif k == "t":
            cfg["t"] = int(v)
        elif k == "sc":
            cfg["sc"] = None if v == "d" else int(v)
        elif k == "L":
            a, b = v.split(",")
            cfg["L"].append((int(a), None if b == "n" else int(b)))
        elif k == "R":
            cfg["R"].append(int(v))
        elif k == "P":
            a, b, c, d = v.split(",")
            # `<nvars>h`: every byte is mapped as two 4-bit halves of its object (the bit path of PdoVariable)
            cfg["H"] = cfg.get("H", set()) | ({(int(a), int(b))} if d.endswith("h") else set())
            cfg["P"].append((int(a), int(b), None if c == "n" else int(c), int(d.rstrip("h"))))
        else:
            raise ValueError(f"bad config token {toks[i]}")
        i += 1
    return cfg, toks[i + 1:]


def uvar(name, index, sub, dtype, default=None):
    v = od.ODVariable(name, index, sub)
    v.data_type = dtype
    v.access_type = "rw"
    v.default = default
    return v


def make_od(hb_default, keys):
    d = od.ObjectDictionary()
    d.add_object(uvar("Producer heartbeat time", HB_INDEX, 0, dt.UNSIGNED16, hb_default))
    for i in range(8):
        d.add_object(uvar(f"Byte {i}", 0x2000 + i, 0, dt.UNSIGNED8, 0))
    for k in keys:
        com, mp = (0x1400 + k - 1, 0x1600 + k - 1) if k < 100 else (0x1800 + k - 101, 0x1A00 + k - 101)
        rec = od.ODRecord(f"PDO {k} communication", com)
        rec.add_member(uvar("Highest sub-index", com, 0, dt.UNSIGNED8, 2))
        rec.add_member(uvar("COB-ID", com, 1, dt.UNSIGNED32, 0))
        rec.add_member(uvar("Transmission type", com, 2, dt.UNSIGNED8, 254))
        d.add_object(rec)
        arr = od.ODArray(f"PDO {k} mapping", mp)
        arr.add_member(uvar("Number of entries", mp, 0, dt.UNSIGNED8, 0))
        arr.add_member(uvar("Entry", mp, 1, dt.UNSIGNED32, 0))
        d.add_object(arr)
    return d


class Env:
    def __init__(self, cfg):
        self.cfg = cfg
        self.rec = Recorder()
        self.bus = FakeBus(bool(cfg["m"]), self.rec, bool(cfg["t"]))
        self.clock = 0                # µs; time stamps of received frames (only moves forward)
        self.net = canopen.Network(bus=self.bus)
        if cfg["sc"] is not None:
            self.net.sync.cob_id = cfg["sc"]
        self.locals = [n for n, _ in cfg["L"]]
        self.remotes = list(cfg["R"])
        keys = {}
        for n, k, _, _ in cfg["P"]:
            keys.setdefault(n, []).append(k)
        for n, dflt in cfg["L"]:
            self.net.create_node(n, make_od(dflt, keys.get(n, [])))
        for n in cfg["R"]:
            self.net.add_node(n, make_od(None, keys.get(n, [])))
        for n, k, cob, nv in cfg["P"]:
            m = self.pmap(n, k)
            m.cob_id = cob
            for i in range(nv):
                if (n, k) in cfg.get("H", ()):
                    m.add_variable(0x2000 + i, 0, 4)
                    m.add_variable(0x2000 + i, 0, 4)
                else:
                    m.add_variable(0x2000 + i, 0, 8)

    def pmap(self, n, k):
        node = self.net[n]
        return node.rpdo[k] if k < 100 else node.tpdo[k - 100]

    def slave(self, n):
        if n not in self.locals:
            raise KeyError(n)
        return self.net[n].nmt

    def master(self, n):
        if n == 0:
            return self.net.nmt
        if n not in self.remotes:
            raise KeyError(n)
        return self.net[n].nmt


def per(s):
    return None if s == "n" else int(s) / 1e6


def apply_op(env, tok):
    kind, _, arg = tok.partition(":")
    f = arg.split(",") if arg else []
    net = env.net
    if kind == "ss":
        net.sync.start(per(f[0]))
    elif kind == "sx":
        net.sync.stop()
    elif kind == "sp":
        net.sync.period = per(f[0])
    elif kind == "pp":
        env.pmap(int(f[0]), int(f[1])).period = per(f[2])
    elif kind == "pr":
        m = env.pmap(int(f[0]), int(f[1]))
        dt_us, data = int(f[2]), bytearray(unhx(f[3]))
        if dt_us < 0:
            raise ValueError("bad op: the clock only moves forward")
        env.clock += dt_us
        m.on_message(m.cob_id, data, env.clock / 1e6)
    elif kind == "ps":
        env.pmap(int(f[0]), int(f[1])).start(per(f[2]))
    elif kind == "px":
        env.pmap(int(f[0]), int(f[1])).stop()
    elif kind == "pu":
        m = env.pmap(int(f[0]), int(f[1]))
        m.data = bytearray(unhx(f[2]))
        m.update()
    elif kind == "pv":
        if (int(f[0]), int(f[1])) in env.cfg.get("H", ()):
            # byte i = its two mapped halves, written one after the other (each through the bit path)
            m, i, v = env.pmap(int(f[0]), int(f[1])), int(f[2]), int(f[3])
            if not 0 <= v <= 255 or not 0 <= 2 * i + 1 < len(m.map):
                raise ValueError("not a byte of this map")
            m.map[2 * i].raw = v & 0x0F
            m.map[2 * i + 1].raw = v >> 4
        else:
            env.pmap(int(f[0]), int(f[1]))[int(f[2])].raw = int(f[3])
    elif kind == "pa":
        net[int(f[0])].pdo.stop()
    elif kind == "hs":
        env.slave(int(f[0])).start_heartbeat(int(f[1]))
    elif kind == "hx":
        env.slave(int(f[0])).stop_heartbeat()
    elif kind == "hu":
        env.slave(int(f[0])).update_heartbeat()
    elif kind == "hw":
        env.slave(int(f[0]))
        net[int(f[0])].sdo[HB_INDEX].raw = int(f[1])
    elif kind == "hd":
        env.slave(int(f[0]))
        v = int(f[1])
        net.notify(0x600 + int(f[0]), bytearray([0x2B, 0x17, 0x10, 0x00, v & 0xFF, v >> 8, 0, 0]), 0.0)
    elif kind == "ow":
        env.slave(int(f[0])).on_write(int(f[1]), unhx(f[2]))
    elif kind == "cm":
        env.slave(int(f[0])).send_command(int(f[1]))
    elif kind == "st":
        env.slave(int(f[0])).state = f[1].replace("_", " ")
    elif kind == "nc":
        net.notify(0, bytearray(unhx(f[0])), 0.0)
    elif kind == "gs":
        env.master(int(f[0])).start_node_guarding(int(f[1]) / 1e6)
    elif kind == "gx":
        env.master(int(f[0])).stop_node_guarding()
    elif kind == "dc":
        net.disconnect()
    elif kind == "wn":
        with net:
            pass
    elif kind == "we":
        try:
            with net:
                raise RigError()
        except RigError:
            pass
        else:
            raise RuntimeError("the exception raised inside the with block did not come out of it")
    elif kind == "xn":
        net.__exit__(None, None, None)
    elif kind == "xe":
        e = RigError()
        if net.__exit__(RigError, e, None):
            raise RuntimeError("__exit__ asked for the exception to be swallowed")
    elif kind == "cn":
        import can
        old = can.Bus, can.Notifier
        can.Bus = lambda *a, **kw: FakeBus(bool(env.cfg["m"]), env.rec, bool(env.cfg["t"]))
        can.Notifier = FakeNotifier
        try:
            net.connect()
        finally:
            can.Bus, can.Notifier = old
    else:
        raise ValueError(f"bad op {tok}")


def us(p):
    if p is None:
        return "n"
    try:
        return str(round(p * 1e6))
    except Exception:
        return "bad"


def show_tasks(env):
    out = []
    for t in env.rec.tasks:
        if t.live:
            out.append(f"{t.idx}:{t.arb}{'x' if t.ext else ''}/{hx(t.data)}/{us(t.period)}/{int(t.remote)}")
    return ",".join(out) if out else "-"


def show_api(env):
    out = [f"S={us(env.net.sync.period)}"]
    for n, k, _, _ in env.cfg["P"]:
        m = env.pmap(n, k)
        out.append(f"P{n}.{k}={us(m.period)}/{hx(m.data)}")
    for n in env.locals:
        node = env.net[n]
        name = node.nmt.state
        try:
            v = str(node.sdo[HB_INDEX].raw)
        except Exception:
            v = "n"
        out.append(f"H{n}={STATE_NUM.get(name, '?' + name.replace(' ', '_'))}/{v}")
    return ",".join(out)


def canon_serials(out):
    """task serial numbers → rank among the live tasks of that moment (for histories on maps whose bytes are
    mapped as halves: one byte write is two variable writes there, i.e. two restarts on a bus without
    modify_data, so the serials differ from the model's while tasks, payloads and periods must not)"""
    if out in ("-", "", "bad-op"):
        return out
    res = []
    for part in out.split("|"):
        flag, tasks, api = part.split(";")
        if tasks != "-":
            ts = [t.split(":", 1) for t in tasks.split(",")]
            order = sorted(range(len(ts)), key=lambda i: int(ts[i][0]))
            rank = {i: r for r, i in enumerate(order)}
            tasks = ",".join(f"{rank[i]}:{ts[i][1]}" for i in range(len(ts)))
        res.append(f"{flag};{tasks};{api}")
    return "|".join(res)


def has_halves(op):
    import re
    return re.search(r"P=\d+,\d+,\w+,\d+h", op) is not None


def is_tied(op):
    return "t=1" in op.split(" -- ")[0].split(" ")


def blank_tasks(out):
    """t=1: which tasks are live on the bus is judged by the oracle only (the model describes the bus that leaves
    its tasks alone at shutdown); return flags and API state are compared as always"""
    if out in ("-", "", "bad-op") or out.startswith("HARNESS-RAISED"):
        return out
    res = []
    for part in out.split("|"):
        flag, _, api = part.split(";")
        res.append(f"{flag};*;{api}")
    return "|".join(res)


def canon_both(op, out):
    if has_halves(op):
        out = canon_serials(out)
    if is_tied(op):
        out = blank_tasks(out)
    return out


def canon_model(op, out):
    return canon_both(op, out)


def model_skips(op):
    """on a half-mapped map a variable write after `pu` left a frame of another length takes the bit path on a
    frame it does not fit (the model's byte write is defined for the byte path); such histories are judged by
    the oracle only"""
    if not has_halves(op):
        return False
    cfg, ops = parse(op)
    size = {(n, k): nv for n, k, _, nv in cfg["P"]}
    for tok in ops:
        kind, _, rest = tok.partition(":")
        f = rest.split(",")
        if kind in ("pu", "pr") and (int(f[0]), int(f[1])) in cfg.get("H", ()):
            if len(unhx(f[-1])) != size[(int(f[0]), int(f[1]))]:
                return True
    return False


def canon_impl(op, out):
    return canon_both(op, out)


def run_impl(op):
    cfg, ops = parse(op)
    env = Env(cfg)
    outs = []
    for tok in ops:
        try:
            apply_op(env, tok)
            ok = True
        except ValueError as e:
            if str(e).startswith("bad op"):
                return "bad-op"
            ok = False
        except Exception:
            ok = False
        ovl = env.rec.overlaps
        env.rec.overlaps = 0
        outs.append(f"{'ok' if ok else 'err'}{'!overlap' if ovl else ''};{show_tasks(env)};{show_api(env)}")
    return "|".join(outs) if outs else "-"


# ---- independent oracle: the property, stated on what the implementation left on the bus ----
def parse_out(out):
    steps = []
    if out in ("-", ""):
        return steps
    for part in out.split("|"):
        flag, tasks, api = part.split(";")
        tl = []
        if tasks != "-":
            for t in tasks.split(","):
                idx, rest = t.split(":")
                cid, data, period, remote = rest.split("/")
                ext = cid.endswith("x")
                tl.append({"idx": int(idx), "id": int(cid.rstrip("x")), "ext": ext, "data": unhx(data),
                           "period": period, "remote": remote == "1"})
        a = {"S": None, "P": {}, "H": {}}
        for item in api.split(","):
            k, _, v = item.partition("=")
            if k == "S":
                a["S"] = v
            elif k[0] == "P":
                n, kk = k[1:].split(".")
                p, d = v.split("/")
                a["P"][(int(n), int(kk))] = (p, unhx(d))
            elif k[0] == "H":
                st, o = v.split("/")
                a["H"][int(k[1:])] = (st, o)
        steps.append((flag == "ok", tl, a))
    return steps


DISCONNECTS = ("dc", "wn", "we", "xn", "xe")   # disconnect() and every way of leaving the network as a context manager
SYNC_DEFAULT_COB = 0x80     # CiA 301 pre-defined connection set (the oracle's own constant)


def producers(cfg):
    """(CAN id, remote) -> producer name; None if two producers share an id (not attributable)."""
    m = {}
    sc = SYNC_DEFAULT_COB if cfg["sc"] is None else cfg["sc"]

    def put(key, name):
        m[key] = None if key in m else name
    put((sc, False), ("sync",))
    for n, k, cob, _ in cfg["P"]:
        if cob is not None:
            put((cob, False), ("pdo", n, k))
    for n, _ in cfg["L"]:
        put((0x700 + n, False), ("hb", n))
    for n in [0] + list(cfg["R"]):
        put((0x700 + n, True), ("guard", n))
    return m


def pname(p):
    return p[0] + ("" if len(p) == 1 else "(" + ",".join(str(x) for x in p[1:]) + ")")


def oracle(op, out):
    if out == "bad-op" or out.startswith("HARNESS-RAISED"):
        return f"harness/none: runner could not execute the history: {out}"
    if "!overlap" in out:
        j = [i for i, part in enumerate(out.split("|")) if part.split(";")[0].endswith("!overlap")][0]
        tok = parse(op)[1][j]
        return (f"overlap/{tok.split(':')[0]}: during call {j + 1} `{tok}` a producer started its replacement task while "
                f"its earlier task was still transmitting (two tasks of one producer at that moment)")
    out = out.replace("!overlap", "")
    cfg, ops = parse(op)
    steps = parse_out(out)
    if len(steps) != len(ops):
        return "harness/none: number of observations differs from number of calls"
    prod = producers(cfg)
    sc = SYNC_DEFAULT_COB if cfg["sc"] is None else cfg["sc"]
    # what the calls so far say about each producer (spec-level bookkeeping, not the code's logic)
    should = {}           # producer -> True (started) / False (stopped) / None (a start raised)
    want_period = {}      # producer -> period in µs the last successful start asked for
    in_domain = True      # no NMT state change so far raised after changing the state
    disconnected = False
    pdo_cob = {(n, k): cob for n, k, cob, _ in cfg["P"]}
    # the period a start() without argument has to use, from the calls alone: ("never",) nobody gave one,
    # ("val", µs) the last one given (start(v), `period = v`, or measured between two received frames on a map
    # that was never started), ("unknown",) where the documentation leaves it open (0 given, frames received
    # around a transmission)
    remembered = {}
    ever_started = set()
    last_rx = {}
    clock = 0
    loose_period = set()  # producers whose period attribute was assigned while their task ran
    silent_why = {}
    own1017 = {n: ("n" if d is None else str(d)) for n, d in cfg["L"]}   # None: not known from the calls
    seen_max = -1
    prev_api = {"S": "n", "P": {(n, k): ("n", bytes(nv)) for n, k, _, nv in cfg["P"]},
                "H": {n: ("0", "n" if d is None else str(d)) for n, d in cfg["L"]}}
    for j, (tok, (ok, tasks, api)) in enumerate(zip(ops, steps)):
        where = f"after call {j + 1} `{tok}`"
        kind, _, arg = tok.partition(":")
        f = arg.split(",") if arg else []
        if kind in ("cm", "st") and not ok and int(f[0]) in api["H"] \
                and api["H"][int(f[0])][0] != prev_api["H"][int(f[0])][0]:
            in_domain = False
        by = {}
        for t in tasks:
            p = prod.get((t["id"], t["remote"]), "unknown")
            if p == "unknown":
                return f"unknown_task/none: {where} a cyclic task {t['id']:#x} belongs to no producer"
            if p is not None:
                by.setdefault(p, []).append(t)
        # --- at most one per producer
        for p, ts in by.items():
            if len(ts) > 1:
                return (f"at_most_one/{p[0]}: {where} producer {pname(p)} has {len(ts)} cyclic tasks "
                        f"running: {[(t['idx'], t['period']) for t in ts]}")
        # --- bookkeeping of what the API calls asked for
        target = None
        started = stopped = False
        must_ok = None        # reason why this (re)start has to succeed, if it has to
        must_refuse = False   # a start() without a period on a producer that was never given one
        if kind in ("ss", "ps"):
            if kind == "ss":
                target, arg, exists, cob_ok = ("sync",), f[0], True, True
            else:
                target, arg = ("pdo", int(f[0]), int(f[1])), f[2]
                exists = target[1:] in pdo_cob
                cob_ok = exists and pdo_cob[target[1:]] is not None
                ever_started.add(target)
            started = True
            if arg != "n":
                remembered[target] = ("val", int(arg)) if int(arg) > 0 else ("unknown",)
            rem = remembered.get(target, ("never",))
            can_start = exists and cob_ok and not disconnected
            if rem[0] == "val" and can_start:
                must_ok = (f"the period {rem[1]} us was given by this call" if arg != "n" else
                           f"start() was called without a period and the period {rem[1]} us had been given before")
                if ok:
                    want_period[target] = str(rem[1])
            elif rem[0] == "never" and exists:
                must_refuse = True
            elif ok:
                # nothing to hold the implementation to but its own attribute
                want_period[target] = (prev_api["S"] if kind == "ss" else
                                       prev_api["P"].get(target[1:], ("n",))[0]) if arg == "n" else arg
        elif kind == "sx":
            target, stopped = ("sync",), True
        elif kind == "px":
            target, stopped = ("pdo", int(f[0]), int(f[1])), True
        elif kind in ("sp", "pp"):
            tg = ("sync",) if kind == "sp" else ("pdo", int(f[0]), int(f[1]))
            if kind == "sp" or tg[1:] in pdo_cob:
                arg = f[0] if kind == "sp" else f[2]
                remembered[tg] = ("never",) if arg == "n" else (("val", int(arg)) if int(arg) > 0 else ("unknown",))
                if by.get(tg):
                    loose_period.add(tg)      # assignment to the period of a running producer: outside the claim
        elif kind == "pr":
            tg = ("pdo", int(f[0]), int(f[1]))
            if tg[1:] in pdo_cob:
                clock += int(f[2])
                if tg in ever_started:
                    remembered[tg] = ("unknown",)
                else:
                    if tg in last_rx:
                        d_us = clock - last_rx[tg]
                        remembered[tg] = ("val", d_us) if d_us > 0 else ("unknown",)
                    last_rx[tg] = clock
        elif kind == "pa":
            for n, k, _, _ in cfg["P"]:
                if n == int(f[0]):
                    should[("pdo", n, k)] = False
                    loose_period.discard(("pdo", n, k))
        elif kind in ("hs", "hx", "hw", "hd", "ow", "cm", "st"):
            n = int(f[0])
            target = ("hb", n)
            is_local = n in [x for x, _ in cfg["L"]]
            ms = None
            if kind == "hs":
                ms = int(f[1])
                if ms > 0 and not disconnected:
                    must_ok = f"start_heartbeat({ms}) on a connected network"
            elif kind in ("hw", "hd") and int(f[1]) < 65536:
                ms = int(f[1])
                if not disconnected:
                    must_ok = f"0x1017 was written with {ms} on a connected network"
                if is_local:
                    own1017[n] = None if disconnected else str(ms)
            elif kind == "ow" and int(f[1]) == HB_INDEX and len(unhx(f[2])) >= 2:
                ms = int.from_bytes(unhx(f[2])[:2], "little")
                if not disconnected:
                    must_ok = f"on_write(0x1017) with {ms} on a connected network"
            elif kind in ("cm", "st") and n in api["H"] and prev_api["H"][n][0] == "0" \
                    and api["H"][n][0] == "127":
                odv = own1017.get(n) if own1017.get(n) is not None else prev_api["H"][n][1]
                if odv != "n":
                    ms = int(odv)                    # boot: heartbeat starts with the 0x1017 value
            elif kind == "hx":
                stopped = True
            if ms is not None:
                if ms > 0:
                    started = True
                    if ok:
                        want_period[target] = str(ms * 1000)
                else:
                    stopped = True
            if not is_local:
                target, started, stopped, must_ok = None, False, False, None
        elif kind in ("gs", "gx"):
            target = ("guard", int(f[0]))
            started, stopped = kind == "gs", kind == "gx"
            if kind == "gs" and ok:
                want_period[target] = f[1]
            if kind == "gs" and not disconnected and (int(f[0]) == 0 or int(f[0]) in cfg["R"]):
                must_ok = f"start_node_guarding({f[1]} us) on a connected network"
        elif kind in DISCONNECTS:
            if cfg["t"] and not disconnected:
                # a bus that stops its own tasks at shutdown silences every producer that ran on it; the property
                # asks that of the PDO maps only, the others are not held to anything until they are started again
                for q in list(should):
                    if q[0] != "pdo" and should[q] is True:
                        should[q] = None
            disconnected = True
        elif kind == "cn":
            if ok:
                disconnected = False
        if must_ok is not None and not ok:
            cl = "refused_restart" if (kind in ("ss", "ps") and (f[0] if kind == "ss" else f[2]) == "n") else "refused_start"
            return (f"{cl}/{target[0]}: {where} the call raised although {must_ok}; "
                    f"producer {pname(target)} has {len(by.get(target, []))} task(s) running instead of its one")
        if must_refuse:
            if ok:
                return (f"spurious_start/{target[0]}: {where} start() without a period returned normally although "
                        f"{pname(target)} was never given a period")
            should[target] = False
            silent_why[target] = "after_refused_start"
        if target is not None:
            if stopped:
                should[target] = False
                silent_why.pop(target, None)
                loose_period.discard(target)
            elif started and not must_refuse:
                should[target] = True if ok else None
                silent_why.pop(target, None)
                if ok:
                    loose_period.discard(target)
        if disconnected:
            for n, k, _, _ in cfg["P"]:
                should[("pdo", n, k)] = False
        loose_period = {q for q in loose_period if by.get(q)}
        # --- runs exactly when the calls say so
        for p, s in should.items():
            live = by.get(p, [])
            if s is False and live:
                cl = silent_why.get(p) or ("disconnect" if (p[0] == "pdo" and disconnected) else (
                    "heartbeat_zero" if (p[0] == "hb" and kind != "hx") else "after_stop"))
                return (f"{cl}/{p[0]}: {where} producer {pname(p)} should be silent but task "
                        f"{live[0]['idx']} ({live[0]['id']:#x}, {live[0]['period']} us) is still running")
            if s is True and not live and prod.get(key_of(p, cfg, sc)) is not None:
                return f"not_running/{p[0]}: {where} producer {pname(p)} was started but nothing is running"
        # --- a (re)start leaves exactly the newly created task, with the period asked for
        if target is not None and started and should.get(target) is True and by.get(target):
            t = by[target][0]
            if t["idx"] <= seen_max:
                return (f"restart/{target[0]}: {where} the task running for {pname(target)} "
                        f"(index {t['idx']}) was created before this (re)start")
        # --- what runs is current
        if in_domain:
            for p, ts in by.items():
                t = ts[0]
                if p in want_period and p not in loose_period and t["period"] != want_period[p]:
                    return (f"stale_period/{p[0]}: {where} {pname(p)} runs with period {t['period']} us, "
                            f"the API state says {want_period[p]} us")
                if p[0] == "sync":
                    exp_data, exp_period = b"", api["S"]
                elif p[0] == "pdo":
                    exp_period, exp_data = api["P"][p[1:]]
                    if kind == "pu" and (int(f[0]), int(f[1])) == p[1:]:
                        exp_data = unhx(f[2])        # the payload this very call handed over
                elif p[0] == "hb":
                    st = api["H"][p[1]][0]
                    exp_data, exp_period = (bytes([int(st)]) if st.isdigit() else None), None
                else:
                    exp_data, exp_period = b"", None
                if exp_data is not None and t["data"] != exp_data:
                    return (f"stale_payload/{p[0]}: {where} {pname(p)} transmits {hx(t['data'])}, "
                            f"its current payload is {hx(exp_data)}")
                if exp_period is not None and p not in loose_period and t["period"] != exp_period:
                    return (f"stale_period/{p[0]}: {where} {pname(p)} runs with period {t['period']} us, "
                            f"its period attribute says {exp_period}")
                if t["ext"] != (t["id"] > 0x7FF):
                    return f"frame_format/{p[0]}: {where} {pname(p)} uses the wrong frame format for {t['id']:#x}"
        for t in tasks:
            seen_max = max(seen_max, t["idx"])
        prev_api = api
    return None


def key_of(p, cfg, sc):
    if p[0] == "sync":
        return (sc, False)
    if p[0] == "pdo":
        for n, k, cob, _ in cfg["P"]:
            if (n, k) == p[1:]:
                return (cob, False)
        return (None, False)
    if p[0] == "hb":
        return (0x700 + p[1], False)
    return (0x700 + p[1], True)


def signature(op, what):
    return what.split(":", 1)[0]


def nontrivial(op, out):
    return any(tl for _, tl, _ in parse_out(out)) if out not in ("bad-op",) and ";" in out else False


def classify(op, out):
    cfg, ops = parse(op)
    n = len(ops)
    b = "1-3" if n <= 3 else ("4-15" if n <= 15 else ("16-40" if n <= 40 else "41+"))
    again = any(t == "ss:n" or (t.startswith("ps:") and t.endswith(",n")) for t in ops)
    return f"m{cfg['m']}:len{b}:{'err' if 'err;' in out else 'noerr'}:{'restart' if again else 'plain'}"


def shrink_candidates(op):
    toks = op.split(" ")
    i = toks.index("--")
    head, ops = toks[:i + 1], toks[i + 1:]
    for n in range(1, len(ops)):
        yield " ".join(head + ops[:n])
    for j in range(len(ops)):
        yield " ".join(head + ops[:j] + ops[j + 1:])
    cfgt = head[:-1]
    for j, t in enumerate(cfgt):
        if t[0] in "LRP":
            yield " ".join(cfgt[:j] + cfgt[j + 1:] + ["--"] + ops)


# ---- generator ------------------------------------------------------------------------------------
PERIODS = [1, 2, 999, 1000, 1001, 10000, 100000, 250000, 1000000, 60000000, 3600000000]
HB_TIMES = [0, 1, 2, 10, 100, 255, 256, 1000, 32767, 32768, 65534, 65535]
NMT_CODES = [1, 2, 80, 96, 128, 129, 130]
NMT_NAMES = ["OPERATIONAL", "STOPPED", "SLEEP", "STANDBY", "PRE-OPERATIONAL", "INITIALISING", "RESET",
             "RESET_COMMUNICATION"]

SMALL = "sc=d L=5,100 R=7 P=5,101,389,2 P=7,1,519,1 --"
ALPHABET = [
    "ss:100000", "ss:200000", "ss:n", "ss:0", "sx", "sp:50000", "sp:n",
    "ps:5,101,1000", "ps:5,101,n", "px:5,101", "pu:5,101,0102", "pu:5,101,0000", "pv:5,101,1,7", "pa:5",
    "pp:5,101,2000", "pp:5,101,n", "pr:5,101,300,0a0b",
    "ps:7,1,5000", "pu:7,1,09",
    "hs:5,100", "hs:5,0", "hx:5", "hw:5,250", "hw:5,0", "hd:5,300", "hd:5,0",
    "cm:5,128", "cm:5,1", "cm:5,129", "st:5,OPERATIONAL", "nc:0205", "nc:8100",
    "gs:7,5000", "gs:7,6000", "gx:7", "dc", "we", "cn",
]


def rand_cfg(rng):
    m = rng.randrange(2)
    sc = "d" if rng.random() < 0.7 else str(rng.choice([0x80, 0x100, 0x7FF, 0x800, 0x1FFFFFFF]))
    used = {0x80 if sc == "d" else int(sc)}
    ids = rng.sample(range(1, 128), 4)
    nl, nr = rng.choice([(1, 1), (1, 0), (0, 1), (2, 1), (1, 2), (2, 2), (0, 0)])
    toks = [f"m={m}"] + (["t=1"] if rng.random() < 0.3 else []) + [f"sc={sc}"]
    nodes = []
    for n in ids[:nl]:
        d = rng.choice(["n", "0"] if rng.random() < 0.25 else [str(rng.choice(HB_TIMES)), str(rng.randrange(1, 65536))])
        toks.append(f"L={n},{d}")
        nodes.append(n)
        used.add(0x700 + n)
    for n in ids[nl:nl + nr]:
        toks.append(f"R={n}")
        nodes.append(n)
        used.add(0x700 + n)
    used.add(0x700)
    pdos = []
    for n in nodes:
        for k in sorted(rng.sample([1, 2, 3, 101, 102, 103], rng.choice([0, 1, 1, 2, 3]))):
            r = rng.random()
            if r < 0.06:
                cob = "n"
            else:
                while True:
                    cob = rng.randrange(0x101, 0x6FF) if r < 0.9 else rng.randrange(0x800, 0x20000000)
                    if cob not in used:
                        break
                used.add(cob)
            nv = rng.choice([0, 1, 2, 2, 4, 7, 8, 8])
            toks.append(f"P={n},{k},{cob},{nv}{'h' if rng.random() < 0.3 else ''}")
            pdos.append((n, k, nv))
    return toks, [n for n in ids[:nl]], [n for n in ids[nl:nl + nr]], pdos


def rand_period(rng, none_ok=True):
    r = rng.random()
    if none_ok and r < 0.25:
        return "n"
    if none_ok and r < 0.30:
        return "0"
    if r < 0.75:
        return str(rng.choice(PERIODS))
    return str(rng.randrange(1, 5000000))


def rand_op(rng, locs, rems, pdos):
    kinds = ["sync"] * 3
    if pdos:
        kinds += ["pdo"] * 5
    if locs:
        kinds += ["hb"] * 6
    kinds += ["guard"] * 2
    kind = rng.choice(kinds)
    if kind == "sync":
        return rng.choice([f"ss:{rand_period(rng)}", f"ss:{rand_period(rng)}", "sx", "ss:n",
                           f"sp:{rand_period(rng)}"])
    if kind == "pdo":
        n, k, nv = rng.choice(pdos)
        c = rng.randrange(13)
        if c == 9:
            return f"ps:{n},{k},n"
        if c == 10:
            return f"pp:{n},{k},{rand_period(rng)}"
        if c >= 11:
            ln = nv if rng.random() < 0.85 else rng.randrange(0, 9)
            dt_us = rng.choice([0, 1, 1000, rng.choice(PERIODS), rng.randrange(1, 5000000)])
            return f"pr:{n},{k},{dt_us},{hx(bytes(rng.choice([0, 1, 255, rng.randrange(256)]) for _ in range(ln)))}"
        if c <= 2:
            return f"ps:{n},{k},{rand_period(rng)}"
        if c == 3:
            return f"px:{n},{k}"
        if c <= 5:
            ln = nv if rng.random() < 0.85 else rng.randrange(0, 9)
            return f"pu:{n},{k},{hx(bytes(rng.choice([0, 0, 1, 255, rng.randrange(256)]) for _ in range(ln)))}"
        if c <= 7:
            i = rng.randrange(nv) if nv and rng.random() < 0.9 else rng.randrange(0, 10)
            return f"pv:{n},{k},{i},{rng.choice([0, 1, 255, 256, rng.randrange(256)])}"
        return f"pa:{n}"
    if kind == "hb":
        n = rng.choice(locs)
        c = rng.randrange(16)
        ms = rng.choice(HB_TIMES) if rng.random() < 0.7 else rng.randrange(1, 65536)
        if c <= 1:
            return f"hs:{n},{rng.choice([ms, ms, ms, -1, 65536, 100000])}"
        if c == 2:
            return f"hx:{n}"
        if c == 3:
            return f"hu:{n}"
        if c <= 5:
            return f"hw:{n},{rng.choice([ms, ms, ms, 0, 65536])}"
        if c == 6:
            return f"hd:{n},{rng.choice([ms, ms, 0])}"
        if c == 7:
            idx = rng.choice([HB_INDEX, HB_INDEX, 0x1016, 0x1018, 0x2000])
            ln = rng.choice([2, 2, 2, 0, 1, 3, 4])
            b = (ms.to_bytes(2, "little") + bytes(2))[:ln] if ln >= 2 else bytes(ln)
            return f"ow:{n},{idx},{hx(b)}"
        if c <= 10:
            return f"cm:{n},{rng.choice(NMT_CODES + NMT_CODES + [0, 3, 255])}"
        if c <= 12:
            return f"st:{n},{rng.choice(NMT_NAMES + NMT_NAMES + ['BOGUS', 'operational'])}"
        nid = rng.choice([0, n, n, rng.randrange(1, 128)])
        fr = bytes([rng.choice(NMT_CODES + [7]), nid])
        if rng.random() < 0.1:
            fr = fr[:rng.randrange(0, 2)]
        elif rng.random() < 0.1:
            fr += bytes(rng.randrange(1, 7))
        return f"nc:{hx(fr)}"
    n = rng.choice([0] + rems + rems)
    return rng.choice([f"gs:{n},{rand_period(rng, False)}", f"gs:{n},{rand_period(rng, False)}", f"gx:{n}"])


def rand_history(rng, maxlen):
    toks, locs, rems, pdos = rand_cfg(rng)
    n = rng.randrange(1, maxlen + 1)
    ops = [rand_op(rng, locs, rems, pdos) for _ in range(n)]
    r = rng.random()
    way = rng.choice(DISCONNECTS + ("dc", "we"))
    if r < 0.3:
        ops.append(way)
    elif r < 0.5:
        i = rng.randrange(len(ops) + 1)
        ops.insert(i, way)
        r2 = rng.random()
        if r2 < 0.5:
            ops.insert(rng.randrange(i + 1, len(ops) + 1), "cn")
        if r2 < 0.25:
            ops.insert(rng.randrange(i + 1, len(ops) + 1), rng.choice(DISCONNECTS))
    elif r < 0.55:
        ops.insert(rng.randrange(len(ops) + 1), "cn")
    return " ".join(toks + ["--"] + ops)


# restart without a period: every way of giving a period x up to two calls in between x start() without argument
RESTART_CFG = "sc=d L=5,100 R=7 P=5,101,389,2 P=7,1,519,1 --"
PDO_GIVES = [[], ["ps:5,101,1000"], ["pp:5,101,2500"], ["pr:5,101,10,0102", "pr:5,101,400,0304"],
             ["ps:5,101,1000", "pp:5,101,3000"], ["pp:5,101,3000", "ps:5,101,1000"]]
PDO_MIDS = ["px:5,101", "pa:5", "pu:5,101,0708", "pv:5,101,0,9", "ps:5,101,n", "ps:7,1,700", "hs:5,50",
            "pr:5,101,77,0506", "pp:5,101,n", "ps:5,101,0", "dc"]
SYNC_GIVES = [[], ["ss:100000"], ["sp:70000"], ["ss:100000", "sp:30000"]]
SYNC_MIDS = ["sx", "ss:n", "ps:5,101,1000", "pa:5", "hs:5,50", "gs:7,5000", "sp:n", "ss:0", "dc"]


def restart_histories():
    for m in (0, 1):
        for gives, mids, again in ((PDO_GIVES, PDO_MIDS, "ps:5,101,n"), (SYNC_GIVES, SYNC_MIDS, "ss:n")):
            for give in gives:
                for d in range(3):
                    for mid in itertools.product(mids, repeat=d):
                        yield f"m={m} {RESTART_CFG} " + " ".join(give + list(mid) + [again])


# every way of disconnecting x what runs x up to two calls afterwards, on the four bus variants
DISC_CFG = "sc=d L=5,100 R=7 P=5,101,389,2 P=7,1,519,1 --"
DISC_BEFORE = ["ps:5,101,1000 ps:7,1,5000 ss:10000 hs:5,10 gs:7,100000", "ps:7,1,5000", "ps:5,101,1000 px:5,101 ps:7,1,700"]
DISC_WAYS = [["dc"], ["wn"], ["we"], ["xn"], ["xe"], ["dc", "dc"], ["we", "we"], ["we", "dc"]]
DISC_AFTER = ["pu:5,101,0708", "pv:7,1,0,9", "pr:7,1,50,0b", "ps:7,1,n", "ps:5,101,2000", "cn", "hu:5"]


def disconnect_histories():
    for m in (0, 1):
        for t in (0, 1):
            for i, before in enumerate(DISC_BEFORE):
                for way in DISC_WAYS:
                    for d in range(3 if i == 0 else 2):
                        for after in itertools.product(DISC_AFTER, repeat=d):
                            yield f"m={m} t={t} {DISC_CFG} {before} " + " ".join(way + list(after))


def gen_ops(tier, rng):
    yield from disconnect_histories()
    yield from restart_histories()
    depth = 2 if tier == "quick" else 3
    for m in (0, 1):
        for d in range(1, depth + 1):
            for seq in itertools.product(ALPHABET, repeat=d):
                yield f"m={m} {SMALL} " + " ".join(seq)
    n_rand = 2500 if tier == "quick" else 40000
    maxlen = 40 if tier == "quick" else 120
    for _ in range(n_rand):
        yield rand_history(rng, maxlen)


def search_ops(tier, rng):
    """wider seeded search used when an obligation broke and no failing input is known yet"""
    n, maxlen = (3000, 40) if tier == "quick" else (20000, 120)
    for _ in range(n):
        yield rand_history(rng, maxlen)


CORPUS = [
    # a running map whose bytes are mapped as 4-bit halves: every variable write goes through the bit path
    "m=0 sc=d R=7 P=7,1,519,2h -- ps:7,1,1000 pv:7,1,1,171 pv:7,1,0,5 px:7,1",
    "m=1 sc=d R=7 P=7,1,519,2h -- ps:7,1,1000 pv:7,1,1,171 pv:7,1,0,5 px:7,1",
    # F3: SyncProducer.start twice used to leak the first task
    "m=0 sc=d -- ss:100000 ss:200000 sx",
    "m=1 sc=d -- ss:100000 ss:200000",
    "m=0 sc=d -- ss:100000 ss:0",
    # both update paths, equal and different payloads
    "m=0 sc=d R=7 P=7,1,519,2 -- ps:7,1,1000 pu:7,1,0000 pu:7,1,0102 pu:7,1,0102 pv:7,1,1,9 px:7,1",
    "m=1 sc=d R=7 P=7,1,519,2 -- ps:7,1,1000 pu:7,1,0000 pu:7,1,0102 pu:7,1,0102 pv:7,1,1,9 px:7,1",
    # heartbeat: boot, state changes, time object set to 0, SDO route
    "m=0 sc=d L=5,100 -- st:5,PRE-OPERATIONAL st:5,OPERATIONAL nc:0205 hw:5,0 hd:5,65535 hd:5,0",
    "m=1 sc=d L=5,65535 -- cm:5,128 cm:5,1 hw:5,1 cm:5,129 cm:5,128 hx:5",
    # disconnect stops the PDO tasks of all nodes and nothing else
    "m=0 sc=d L=5,100 R=7 P=5,101,389,2 P=5,1,517,1 P=7,1,519,1 P=7,102,903,8 -- "
    "ps:5,101,1000 ps:5,1,2000 ps:7,1,5000 ps:7,102,7000 ss:10000 hs:5,10 gs:7,100000 gs:0,50000 dc",
    # every way a network gets disconnected: with-block left normally / through an exception, __exit__ called directly,
    # twice, connect() again and starts afterwards; buses that leave their tasks alone / stop them at shutdown()
    "m=0 t=0 sc=d L=7,100 R=4 P=4,1,516,2 P=7,101,772,2 -- ps:4,1,50000 ps:7,101,100000 we pu:4,1,0102 pr:7,101,10,0304",
    "m=0 t=1 sc=d L=7,100 R=4 P=4,1,516,2 P=7,101,772,2 -- ps:4,1,50000 ps:7,101,100000 we pu:4,1,0102 pr:7,101,10,0304",
    "m=1 t=0 sc=d L=7,100 R=4 P=4,1,516,2 P=7,101,772,2 -- ps:4,1,50000 ps:7,101,100000 ss:10000 hs:7,10 wn xe dc cn "
    "ps:4,1,n ss:n hs:7,20 xn cn cn ps:7,101,n we",
    "m=0 t=1 sc=d L=7,100 R=4 P=4,1,516,2 P=7,101,772,2 -- ps:4,1,50000 ps:7,101,100000 ss:10000 hs:7,10 gs:4,9000 xe "
    "nc:0107 cn nc:0207 ps:4,1,n ss:n hs:7,20 gs:4,8000 dc dc",
    # a state change that raises after changing the state (outside live_is_current; modelled, compared)
    "m=0 sc=d L=5,n -- hs:5,100 cm:5,128",
    "m=0 sc=d L=5,100 -- hs:5,100 cm:5,1 dc cm:5,129",
    # restart without a period: start(v), data change, start(); stop(); start(); both bus flavours
    "m=0 sc=d R=10 P=10,1,522,2 -- pv:10,1,0,52 ps:10,1,50000 pv:10,1,0,239 ps:10,1,n px:10,1 ps:10,1,n ps:10,1,200000 dc",
    "m=1 sc=d R=10 P=10,1,522,2 -- pv:10,1,0,52 ps:10,1,50000 pv:10,1,0,239 ps:10,1,n px:10,1 ps:10,1,n ps:10,1,200000 dc",
    # … with the period assigned by hand, taken back, measured from received frames (and ignored while transmitting)
    "m=0 sc=d R=7 P=7,1,519,2 -- ps:7,1,n pp:7,1,2500 ps:7,1,n pa:7 ps:7,1,n pp:7,1,n ps:7,1,n pp:7,1,0 ps:7,1,n",
    "m=0 sc=d R=7 P=7,1,519,2 -- pr:7,1,100,0102 ps:7,1,n pr:7,1,250,0304 ps:7,1,n pr:7,1,999,0506 px:7,1 pr:7,1,5,0708 "
    "ps:7,1,n pr:7,1,0,090a pr:7,1,0,0b0c ps:7,1,n",
    # … SYNC: start(v); start(); stop(); start(); period assigned by hand; never given / taken back -> refused
    "m=0 sc=d -- ss:n ss:100000 ss:n sx ss:n sp:70000 ss:n sx sp:n ss:n",
    "m=1 sc=256 -- sp:70000 ss:n sp:30000 ss:n dc ss:n",
    # error paths
    "m=0 sc=d R=7 P=7,1,n,2 -- ps:7,1,1000 ps:7,1,n ps:7,1,0",
    "m=1 sc=d L=5,100 -- ow:5,4119,01 ow:5,4119,- ow:5,4120,0100 nc:01 nc:-",
]

LEVEL_TEXT = ("Lean 4 theorems over every configuration and every call history (unbounded length) of the "
              "four producers on both bus flavours: at most one live cyclic task per producer; a task runs "
              "exactly when the producer's handle says so; what runs carries the producer's current id, "
              "payload and period; a (re)start leaves exactly the newly created task; a start() without a period "
              "after any history since the period was last given (start(v), assignment, measured from received "
              "frames) succeeds and runs exactly one task with that period and the current payload, and is "
              "refused leaving none running when no period was ever given; stop, heartbeat time 0 "
              "and disconnect — by disconnect(), by leaving `with network:` normally or through an exception, by "
              "__exit__ called directly — (all PDO maps of all nodes, handles cleared) leave none, and starts work "
              "again after connect(); model tied to the code by an exhaustive "
              "short-history sweep plus seeded random histories compared call by call")
LEVEL_NOTE = ("trusted: Lean kernel + propext/Classical.choice/Quot.sound; python-can's cyclic tasks are "
              "replaced by recording tasks (real schedulers/threads not exercised); live_is_current is "
              "claimed for histories in which no NmtSlave.send_command raised after changing the state (the "
              "hypothesis is proved necessary) and nobody assigned the period attribute of a running producer "
              "(proved necessary as well); the model follows the repaired SyncProducer.start (F3) and "
              "the payload snapshot in PeriodicMessageTask (F13)")
TECHNIQUE = "Lean 4 invariant proof over call histories + differential correspondence with the implementation"
