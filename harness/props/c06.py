"""C06 — Refused SDO accesses report the standard abort code and change nothing.

Server side shares the C02 model and operations; client side (decoding of abort frames by the real
SdoClient) uses the op `cab <code> <mode>`."""
import canopen
from canopen.sdo.exceptions import SdoAbortedError

from props import c02, c04
from props.c02 import (run_impl as _run_impl2, od_token, cb_token, mux, find_entry, NUMBER_W,  # noqa: F401
                       parse_od, parse_cb, frames_of)

ID = "C06"
PROOF_MODULES = ["CanopenProofs.C06", "CanopenProofs.C01"]
GENERATED = ["Datatypes", "SdoConst"]
THEOREMS = [
    "Canopen.C06.read_refusal_codes",
    "Canopen.C06.write_refusal_codes",
    "Canopen.C06.callback_refusal_code",
    "Canopen.C06.refused_read",
    "Canopen.C06.refused_write_inert",
    "Canopen.C06.any_refusal_inert",
    "Canopen.C06.toggle_error",
    "Canopen.C06.unknown_command",
    "Canopen.C01.client_decodes_abort",      # the client API raises the aborted-transfer error with exactly the code
]
FINGERPRINT = c02.FINGERPRINT + ["canopen.sdo.exceptions:SdoAbortedError", "canopen.sdo.client:SdoClient.read_response"]
TRUSTED = c02.TRUSTED
ASSUMPTIONS = c02.ASSUMPTIONS + [
    "'no value' is answered 0x060A0023 (the code the library and its tests use; CiA 301's 0x08000024 noted)",
    "for a refused block-download initiate the abort names the previous transfer's multiplexer (observation, "
    "the statement's 'multiplexer of the transfer' is read as the running one)"]
RULE = ("every numeric type x access rw/ro/wo/const x payload length 0..9 x expedited/segmented, missing index "
        "and sub-index, entries without value, wrong-toggle segments in both directions at every step of "
        "transfers on both sides of the framing boundaries, unknown/unsupported commands; refusals placed "
        "before, between and after successful transfers; non-trivial = an abort was produced")

CODES = {"wo": 0x06010001, "ro": 0x06010002, "noidx": 0x06020000, "nosub": 0x06090011,
         "len": 0x06070010, "noval": 0x060A0023, "toggle": 0x05030000, "cmd": 0x05040001}


class _AbortNet:
    """answers every request with one abort frame carrying the given code"""

    def __init__(self, client, code):
        self.client, self.code = client, code

    def send_message(self, can_id, data, remote=False):
        d = bytes(data)
        if d[0] & 0xE0 != 0x80:
            self.client.on_response(0x582, bytes([0x80]) + d[1:4] + self.code.to_bytes(4, "little"), 0.0)


def run_cab(code, mode):
    """the client API under an abort frame with `code`: upload / expedited download / segmented download"""
    from canopen.sdo.client import SdoClient
    from canopen.sdo.exceptions import SdoCommunicationError
    client = SdoClient(0x602, 0x582, canopen.ObjectDictionary())
    client.network = _AbortNet(client, code)
    try:
        if mode == "u":
            client.upload(0x2000, 0)
        elif mode == "e":
            client.download(0x2000, 0, b"\x01\x02")
        else:
            client.download(0x2000, 0, bytes(10))
        return "ok"
    except SdoAbortedError as e:
        return f"err aborted {e.code}"
    except SdoCommunicationError:
        return "err comm"
    except Exception:
        return "err other"


def run_cabn(code, k, n):
    """a download of n bytes without declared size through the file interface against a conformant server whose
    answer to request number k is replaced by an abort frame with `code`"""
    from canopen.sdo.client import SdoClient
    from canopen.sdo.exceptions import SdoCommunicationError
    from props import c01
    server = c01.RefServer({}, True, True, True, [])
    client = SdoClient(0x602, 0x582, canopen.ObjectDictionary())
    client.RESPONSE_TIMEOUT = 0.001
    count = [0]

    def wrap(req, rs):
        i = count[0]
        count[0] += 1
        return [bytes([0x80, 0x00, 0x20, 0x00]) + code.to_bytes(4, "little")] if i == k else rs
    client.network = c01.Bus(client, server, wrap)
    data = bytes((i * 7 + 1) % 256 for i in range(n))
    try:
        with client.open(0x2000, 0, "wb") as fp:
            fp.write(data)
        return "ok"
    except SdoAbortedError as e:
        return f"err aborted {e.code}"
    except SdoCommunicationError:
        return "err comm"
    except Exception:
        return "err other"


def run_cbref(a):
    """`cbref <od> <idx> <sub> <hex> <expedited> <code>`: the application's write callback refuses the download
    by raising SdoAbortedError(code) → `result | store | readback`"""
    entries = parse_od(a[1])
    idx, sub, data, code = int(a[2]), int(a[3]), c04.unhx(a[4]), int(a[6])
    rig = c02.Rig(entries, {})

    def refuse(index, subindex, od, data, **kw):
        if (index, subindex) == (idx, sub):
            raise SdoAbortedError(code)
    rig.node.add_write_callback(refuse)          # public API only (the rig's own logging callback is not part of the output)
    x = c02.ref_download(rig, idx, sub, data, a[5] == "1", [7, 7, 7])
    st = rig.store_view()
    y = c02.ref_upload(rig, idx, sub)
    return f"{x} | store: {st} | readback: {y}"


def run_impl(op):
    a = op.split(" ")
    if a[0] == "cab":
        return run_cab(int(a[1]), a[2])
    if a[0] == "cbref":
        return run_cbref(a)
    if a[0] == "cabn":
        return run_cabn(int(a[1]), int(a[2]), int(a[3]))
    if a[0] == "srvx":
        return _run_impl2(" ".join(["srv"] + a[1:4]))
    return _run_impl2(op)


def oracle(op, out):
    a = op.split(" ")
    if a[0] == "cab":
        exp = f"err aborted {int(a[1])}"
        return None if out == exp else f"abort frame with code {int(a[1]):#010x}: the client API gave {out}, expected {exp}"
    if a[0] == "cabn":
        code, k, n = int(a[1]), int(a[2]), int(a[3])
        nreq = 1 + (n + 6) // 7 + (1 if n % 7 == 0 or True else 0)      # initiate, segments, closing empty segment
        nreq = 1 + (n + 6) // 7 + 1
        if k < nreq:
            exp = f"err aborted {code}"
            return None if out == exp else (f"cabn: the answer to request {k} of an unsized {n}-byte download was "
                                            f"abort {code:#010x}; the client API gave {out}, expected {exp}")
        return None if out == "ok" else f"cabn: undisturbed unsized download gave {out}"
    if a[0] == "cbref":
        entries = parse_od(a[1])
        idx, sub, code = int(a[2]), int(a[3]), int(a[6])
        parts = out.split(" | ")
        vd, _ = find_entry(entries, idx, sub)
        if vd is None or not c02.writable(vd[1]) or c02.cia_encode(vd[0], ("x", c04.unhx(a[4]))) is None:
            return None
        if vd[0] in NUMBER_W and NUMBER_W[vd[0]] // 8 != len(c04.unhx(a[4])):
            return None                      # refused by the server itself before the callback is asked
        if parts[0] != f"abort {code}":
            return f"cbref: a download refused by the write callback was answered {parts[0]}, not abort {code}"
        if parts[1] != "store: -":
            return f"cbref: the refused data was stored anyway ({parts[1]})"
        exp = c02.expected_upload(entries, {}, idx, sub)
        if exp is not None and c02.readable(vd[1]) and parts[2] != "readback: " + exp:
            return f"cbref: after the refused write the entry reads {parts[2]}, its value is {exp}"
        return None
    if a[0] == "srvx":
        w = c02.check_frames(frames_of(a[3]), out.split(" | ")[0])
        if w:
            return w
        last = out.split(" | ")[0].split(",")[-1]
        want, _, after = a[4].partition("~")
        if last != want:
            return f"last response {last}, the standard demands {want}"
        if after:
            # what the node must hold and what the write callbacks must have been told when all is over
            # (the refused transfer contributes nothing)
            if f" | store: {after} | log: {after}" not in out:
                return (f"after the refused transfer the node holds / the callbacks were told "
                        f"{out.split(' | ', 1)[1]}, expected store and log {after}")
        return None
    return c02.oracle(op, out)


def signature(op, what):
    if op.startswith(("cab ", "cbref ", "cabn ")):
        return op.split(" ")[0] + ":" + what.split(" ")[0]
    return c02.signature(op, what)


def nontrivial(op, out):
    return "abort" in out or ",80" in out or out.startswith("80")


def classify(op, out):
    if op.startswith(("cab ", "cbref ", "cabn ")):
        return op.split(" ")[0]
    return c02.classify(op, out)


def shrink_candidates(op):
    if op.startswith(("cab ", "cbref ", "cabn ")):
        return []
    return c02.shrink_candidates(op)


def abort_hex(idx, sub, code):
    return c04.hx(bytes([0x80]) + mux(idx, sub) + code.to_bytes(4, "little"))


def seg_up_frames(k, wrong_at):
    fr = []
    for i in range(k + 1):
        t = 0x10 if i % 2 else 0
        if i == wrong_at:
            t ^= 0x10
        fr.append(bytes([0x60 | t]) + bytes(7))
    return fr


def gen_ops(tier, rng):
    # numeric types x access x payload lengths 0..9 x expedited/segmented, before/between/after good transfers
    good_up = c04.hx(bytes([0x40]) + mux(0x2000, 0) + bytes(4))
    for t in sorted(NUMBER_W):
        w = NUMBER_W[t] // 8
        for acc in (0, 1, 2, 3):
            vd = (t, acc, None, c02.rand_value(t, rng, 8))
            other = ("v", 0x2000, (0x05, 0, None, ("i", 5)))
            ods = od_token([("v", 0x2100, vd), other])
            lens = range(0, 10) if tier == "thorough" else sorted({0, w - 1, w, w + 1, 9, rng.randint(0, 9)})
            for n in lens:
                data = bytes(rng.getrandbits(8) for _ in range(n))
                for exp in (0, 1):
                    pre = rng.choice(["-", good_up, good_up + "," + c04.hx(c02.junk_frame(rng))])
                    yield f"down {ods} - {pre} {0x2100} 0 {c04.hx(data)} {exp} {c04.nl([rng.randint(1, 7) for _ in range(4)])}"
            yield f"up {ods} - - {0x2100} 0"
            yield f"up {ods} - {good_up} {0x2100} 1" if False else f"up {ods} - {good_up} {0x2101} 0"
    # generated dictionaries: every address incl. missing ones, entries without value
    for _ in range(40 if tier == "quick" else 400):
        entries = c02.rand_od(rng, 20)
        ods = od_token(entries)
        for (idx, sub) in c02.addresses(entries, rng):
            yield f"up {ods} - - {idx} {sub}"
            data = bytes(rng.getrandbits(8) for _ in range(rng.randint(0, 9)))
            yield f"down {ods} - - {idx} {sub} {c04.hx(data)} {rng.randint(0, 1)} {c04.nl([rng.randint(1, 7) for _ in range(4)])}"
    # client side: abort frames with every kind of code, at each kind of transfer
    codes = sorted(set(CODES.values()) | {0, 1, 0x7FFFFFFF, 0x80000000, 0x80000001, 0xFFFFFFFF, 0x08000000, 0x05040000}
                   | {rng.getrandbits(32) for _ in range(40 if tier == "quick" else 2000)}
                   | {1 << k for k in range(32)})
    for code in codes:
        for mode in "ues":
            yield f"cab {code} {mode}"
    # downloads without declared size through the file interface, refused at every step incl. the closing segment
    for n in (0, 1, 6, 7, 8, 14, 20):
        nreq = 1 + (n + 6) // 7 + 1
        for k in range(nreq + 1):
            yield f"cabn {rng.choice([0x06010002, 0x06070010, 0x06020000, 0x80000000 | rng.getrandbits(31)])} {k} {n}"
    # a write callback of the application refuses the download: abort with its code, nothing stored
    for t in (0x05, 0x06, 0x07, 0x0A, 0x0F):
        w = NUMBER_W.get(t, 0) // 8
        for n in ([w] if w else [0, 1, 4, 5, 9, 20]):
            data = bytes(rng.getrandbits(8) for _ in range(n))
            vd = (t, 0, None, c02.rand_value(t, rng, 8))
            ods = od_token([("v", 0x2100, vd), ("r", 0x2200, [(3, vd)])])
            for (idx, sub) in ((0x2100, 0), (0x2200, 3)):
                for exp in (0, 1):
                    yield f"cbref {ods} {idx} {sub} {c04.hx(data)} {exp} {rng.choice([0x06090031, 0x08000020, 0x06090030])}"
    # wrong toggle at every step, lengths on both sides of 7 / 14 / 21
    for n in (5, 7, 8, 14, 15, 21, 22, 30):
        val = bytes(rng.getrandbits(8) for _ in range(n))
        ods = od_token([("r", 0x2200, [(3, (0x0A, 0, None, ("x", val)))])])
        nseg = (n + 6) // 7
        for k in range(nseg):
            frames = [bytes([0x40]) + mux(0x2200, 3) + bytes(4)] + seg_up_frames(k, k)
            yield (f"srvx {ods} - {','.join(c04.hx(f) for f in frames)} "
                   f"{abort_hex(0x2200, 3, CODES['toggle'])}~-")
        for k in range(nseg):
            frames = [bytes([0x21]) + mux(0x2200, 3) + n.to_bytes(4, "little")]
            for i in range(k + 1):
                t = (0x10 if i % 2 else 0) ^ (0x10 if i == k else 0)
                chunk = val[7 * i:7 * i + 7]
                frames.append(bytes([t | (7 - len(chunk)) << 1 | int(7 * i + 7 >= n)]) + chunk.ljust(7, b"\0"))
            yield (f"srvx {ods} - {','.join(c04.hx(f) for f in frames)} "
                   f"{abort_hex(0x2200, 3, CODES['toggle'])}~-")
        # the same after a history: an earlier transfer with an odd number of segments (completed or abandoned),
        # then a new transfer (download with / without size indication, upload) whose FIRST segment has toggle 1
        if n > 7:
            pre_up = [bytes([0x40]) + mux(0x2200, 3) + bytes(4)] + seg_up_frames(0, -1)          # one segment, left open
            pre_dn = [bytes([0x21]) + mux(0x2200, 3) + (5).to_bytes(4, "little"),
                      bytes([0x00 | (2 << 1) | 1]) + val[:5].ljust(7, b"\0")]                      # one segment, complete
            for pre in (pre_up, pre_dn):
                held = "-" if pre is pre_up else f"{0x2200}.3={c04.hx(val[:5])}"
                for init in (bytes([0x21]) + mux(0x2200, 3) + n.to_bytes(4, "little"),
                             bytes([0x20]) + mux(0x2200, 3) + bytes(4)):
                    seg = bytes([0x10 | (7 - min(n, 7)) << 1 | int(n <= 7)]) + val[:7].ljust(7, b"\0")
                    frames = pre + [init, seg]
                    yield (f"srvx {ods} - {','.join(c04.hx(f) for f in frames)} "
                           f"{abort_hex(0x2200, 3, CODES['toggle'])}~{held}")
                frames = pre + [bytes([0x40]) + mux(0x2200, 3) + bytes(4), bytes([0x70]) + bytes(7)]
                yield (f"srvx {ods} - {','.join(c04.hx(f) for f in frames)} "
                       f"{abort_hex(0x2200, 3, CODES['toggle'])}")
        # unknown / unsupported command in the middle of a transfer names the running multiplexer
        for cs in (0xE0, 0xFF, 0xC0, 0xC2, 0xE1):
            frames = [bytes([0x40]) + mux(0x2200, 3) + bytes(4), bytes([cs]) + bytes(rng.getrandbits(8) for _ in range(7))]
            yield (f"srvx {ods} - {','.join(c04.hx(f) for f in frames)} "
                   f"{abort_hex(0x2200, 3, CODES['cmd'])}")


CORPUS = []

LEVEL_TEXT = ("Lean 4 theorems over the server/local-node model: each refusal condition yields its CiA 301 code "
              "(0x06010001, 0x06010002, 0x06020000, 0x06090011, 0x06070010, 0x060A0023, 0x05030000, 0x05040001) in "
              "one abort frame carrying the transfer's multiplexer, as seen by a strict reference client, for "
              "expedited and for any segmentation; every refusal branch leaves stored values and the write-callback "
              "log untouched; tied to the code by differential runs over types x access x lengths x modes")
LEVEL_NOTE = c02.LEVEL_NOTE + "; client-side decoding of abort frames is proved over the client model (C01)"
TECHNIQUE = "Lean 4 proof (case analysis of every refusal branch, induction over segments) + differential correspondence"
