"""Helpers shared by the C12 / C13 property modules (SDO block transfers): payload
specifications of the line protocol and an independent description of the ideal conversation."""
import logging

logging.getLogger("canopen").setLevel(logging.CRITICAL)
logging.getLogger("canopen.sdo.client").disabled = True


def lcg(n, seed):
    out, x = bytearray(), seed
    for _ in range(n):
        x = (x * 1103515245 + 12345) % 2147483648
        out.append((x >> 16) % 256)
    return bytes(out)


def parse_data(s):
    k, r = s[0], s[1:]
    if k == "h":
        return b"" if r == "-" else bytes.fromhex(r)
    if k == "z":
        return bytes(int(r))
    if k == "f":
        return b"\xff" * int(r)
    if k == "r":
        seed, n = r.split(":")
        return lcg(int(n), int(seed))
    raise ValueError(s)


def hx(b):
    return bytes(b).hex() if len(b) else "-"


def nl(xs):
    xs = list(xs)
    return ",".join(str(x) for x in xs) if xs else "-"


def unnl(s):
    return [] if s == "-" else [int(x) for x in s.split(",")]


def crc16(data, crc=0):
    """CRC-16/XMODEM bit by bit (the oracle's own; not binascii, not the reference server's)"""
    for byte in data:
        for i in range(7, -1, -1):
            top = ((crc >> 15) & 1) ^ ((byte >> i) & 1)
            crc = (crc << 1) & 0xFFFF
            if top:
                crc ^= 0x1021
    return crc
