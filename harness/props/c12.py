"""C12 — SDO block download delivers exactly the payload or fails visibly."""
import binascii

from canopen.sdo.client import BlockDownloadStream

from peers.ref_block_server import RefBlockDownloadServer
from peers.sdo_rig import Rig
from props.blk_common import crc16, hx, nl, parse_data, unnl

ID = "C12"
PROOF_MODULES = ["CanopenProofs.C12"]
GENERATED = ["SdoBlock"]
THEOREMS = [
    "Canopen.C12.undisturbed_offers",
    "Canopen.C12.unsized_completed_by_close",
    "Canopen.C12.hand_loop_is_chunks",
    "Canopen.C12.undisturbed",
    "Canopen.C12.single_loss_repaired",
    "Canopen.C12.returns_normally_implies_exact",
    "Canopen.C12.fuel_suffices",
    "Canopen.C12.driver_never_out_of_fuel",
    "Canopen.C12.driver_fuel_suffices",
]
FINGERPRINT = [
    "canopen.sdo.client:BlockDownloadStream",
    "canopen.sdo.client:SdoClient.request_response",
    "canopen.sdo.client:SdoClient.read_response",
    "canopen.sdo.client:SdoClient.send_request",
    "canopen.sdo.client:SdoClient.abort",
    "canopen.sdo.client:SdoClient.open",
    "canopen.sdo.base:CrcXmodem",
]
TRUSTED = [
    "Spec/BlockServer.lean (BlockDown): my reading of the CiA 301 block-download server, written twice "
    "(Lean spec, harness/peers/ref_block_server.py) and compared on every operation",
    "binascii.crc_hqx modelled as bitwise CRC-16/XMODEM (Crc.lean), compared on every crc op and through every "
    "transfer with CRC (the Python reference server has its own bitwise CRC)",
    "queue.Queue modelled as FIFO list; time-outs as the abstract event 'queue empty when the client looks' "
    "(harness/peers/sdo_rig.py replaces canopen.sdo.client's queue/time module attributes; the peer's own "
    "time-out fires first); io.BufferedWriter is any RawIOBase caller: it offers prefixes of the unsent data and "
    "advances by the count write() returns — the raw write() offers it makes are recorded when an operation is "
    "generated, carried in the operation, checked to be unchanged at run time and replayed by the Lean driver "
    "(buffer sizes 1, 2, 3, 7, 8, 13, 16, 32, 1024; payload written at once or in pieces; hand loop on the raw "
    "stream); not modelled: a BufferedWriter that offers its buffer once more from close() after a raw write raised",
]
ASSUMPTIONS = [
    "responses are 8 bytes long (a conformant server; shorter frames raise struct.error in the client and are "
    "outside the model)",
    "only client-to-server frames are lost (lost or altered responses belong to C07)",
    "block sizes announced by the server are in 1..127",
]
RULE = ("ops `bdl idx sub data size crcreq srvcrc blks loss buf offers` (one whole transfer per line: real SdoClient on a "
        "synchronous in-memory bus against the Python reference block server; buf = 0: hand loop on the raw stream, "
        "B: BufferedWriter(B) given the payload at once, BcK: in pieces of K bytes; offers = lengths of the raw "
        "write() offers that caller made (- = always the whole remainder), replayed by the model; compared: every "
        "frame on the bus in order incl. lost ones, committed payload, server's illegality flag, ok/err) and `crc "
        "data init`; "
        "lengths 1..64, 7k-1..7k+1, blk*7*k-1..+1 for blk in {1,2,7,127}, 889k+-1, up to 10^4; block-size "
        "streams constant {1,2,7,127} and seeded changing; CRC requested/supported in all four combinations; "
        "every single lost frame position of selected transfers (raw and through buffers fed in pieces), seeded "
        "multi-loss; size not declared: every length 1..64 raw and buffered (must succeed unless the length is a "
        "multiple of 7, where no segment can carry c=1 and the transfer must fail with nothing committed); declared "
        "size wrong in a few; non-trivial = the transfer returned normally")


def parse(op):
    a = op.split(" ")
    return dict(idx=int(a[1]), sub=int(a[2]), payload=parse_data(a[3]),
                size=None if a[4] == "-" else int(a[4]), crcreq=a[5] == "1", srvcrc=a[6] == "1",
                blks=unnl(a[7]), loss=set(unnl(a[8])), buf=int(a[9].split("c")[0]),
                chunk=int(a[9].split("c")[1]) if "c" in a[9] else None,
                offers=None if len(a) < 11 or a[10] == "-" else unnl(a[10]))


def hand_pattern(n, seen):
    """are the raw offers those of a caller that always offers the whole unsent remainder?"""
    left = n
    for k, ret in seen:
        if k != left:
            return False
        left -= ret or 0
    return True


def run_bdl(p, seen=None):
    """`seen` collects (length offered, count returned or None if it raised) of every raw write() call made
    by the caller (not the re-entrant ones of _retransmit)"""
    srv = RefBlockDownloadServer(p["blks"], p["srvcrc"])
    loss = p["loss"]
    rig = Rig(5, srv, lose_req=lambda n, f: n in loss)
    payload = p["payload"]
    orig = BlockDownloadStream.write
    depth = [0]

    def rec(self, b):
        top = depth[0] == 0
        if top and seen is not None:
            seen.append([len(b), None])
            mine = seen[-1]
        depth[0] += 1
        try:
            n = orig(self, b)
        finally:
            depth[0] -= 1
        if top and seen is not None:
            mine[1] = n
        return n
    BlockDownloadStream.write = rec
    try:
        return _run_bdl(p, rig, srv, payload)
    finally:
        BlockDownloadStream.write = orig


def _run_bdl(p, rig, srv, payload):
    try:
        with rig.client.open(p["idx"], p["sub"], "wb", buffering=p["buf"], size=p["size"],
                             block_transfer=True, request_crc_support=p["crcreq"]) as fp:
            if p["buf"] == 0:
                pos = 0
                while pos < len(payload):
                    pos += fp.write(payload[pos:])
            elif p.get("chunk"):
                # the caller hands the payload over in pieces; BufferedWriter flushes wherever its buffer fills up
                for i in range(0, len(payload), p["chunk"]):
                    fp.write(payload[i:i + p["chunk"]])
            else:
                fp.write(payload)
        res = "ok"
    except Exception:
        res = "err"
    return res, srv, rig


def run_impl(op):
    a = op.split(" ")
    if a[0] == "crc":
        return f"ok {binascii.crc_hqx(parse_data(a[1]), int(a[2]))}"
    if a[0] != "bdl":
        return "bad-op"
    p = parse(op)
    seen = []
    res, srv, rig = run_bdl(p, seen)
    # the op carries the raw write() offers observed when it was generated (`-` = always the whole remainder)
    if (hand_pattern(len(p["payload"]), seen) if p["offers"] is None else [k for k, _ in seen] == p["offers"]) is False:
        return f"OFFERS-CHANGED {[k for k, _ in seen][:40]}"
    committed = "none" if srv.committed is None else hx(srv.committed)
    ill = "-" if srv.illegal is None else str(srv.illegal)
    return f"{res} {committed} {ill} " + ",".join(rig.trace)


# ---- independent oracle -------------------------------------------------------------------------
def ideal_requests(p):
    """The client frames of an undisturbed conformant block download, from the standard:
    initiate, segments numbered 1..blksize per sub-block with c=1 exactly on the last one, end
    request with n and (when negotiated — this client also sends it when only the server
    supports it) the CRC.  Returns (frames, index of first segment of the final sub-block)."""
    payload, blks = p["payload"], p["blks"]
    cmd = 0xC0 | (4 if p["crcreq"] else 0) | (2 if p["size"] is not None else 0)
    frames = [bytes([cmd, p["idx"] & 0xFF, p["idx"] >> 8, p["sub"]]) + (p["size"] or 0).to_bytes(4, "little")]
    chunks = [payload[i:i + 7] for i in range(0, len(payload), 7)]
    k, seq, blk = 1, 0, blks[0]
    final_start = 1
    for i, c in enumerate(chunks):
        if seq == 0:
            final_start = len(frames)
        seq += 1
        last = i == len(chunks) - 1
        frames.append(bytes([seq | (0x80 if last else 0)]) + c + bytes(7 - len(c)))
        if seq == blk and not last:
            seq, blk = 0, blks[k % len(blks)]
            k += 1
    n = 7 - len(chunks[-1])
    crc = crc16(payload) if p["srvcrc"] else 0
    frames.append(bytes([0xC1 | n << 2, crc & 0xFF, crc >> 8, 0, 0, 0, 0, 0]))
    return frames, final_start


def oracle(op, out):
    a = op.split(" ")
    if a[0] == "crc":
        exp = f"ok {crc16(parse_data(a[1]), int(a[2]))}"
        return None if out == exp else f"crc_hqx gave {out}, CRC-16/XMODEM is {exp}"
    if a[0] != "bdl":
        return None
    if out.startswith("OFFERS-CHANGED"):
        return None
    p = parse(op)
    o = out.split(" ")
    if len(o) != 4 or o[0] not in ("ok", "err"):
        return f"unexpected output {out[:80]}"
    res, committed, ill, trace = o
    payload = p["payload"]
    if res == "ok" and committed != hx(payload):
        return ("silent corruption: block download returned normally but the server committed "
                + (committed[:40] if committed != "none" else "nothing"))
    if not payload:
        return None
    if p["size"] is None and len(payload) % 7 == 0:
        # Size not declared and the data ends on a segment boundary: no write() can know that its segment is the
        # last one, none carries c=1, close() has nothing kept back and sends the end request into the open
        # sub-block; the server answers with an acknowledge and close() raises (behaviour unchanged by the fix of
        # write()).  Required: a visible failure with nothing committed — or, should the code learn to complete
        # such a transfer, success with exactly the payload (checked above).
        if not p["loss"] and res != "ok" and committed != "none":
            return f"undisturbed: the transfer failed but the server committed {committed[:40]}"
        return None
    if p["size"] is not None and p["size"] != len(payload):
        return None         # wrong declared size: outside the property (only 'no silent corruption' above)
    # declared size, or no declared size and a last partial segment that close() sends (C12
    # unsized_completed_by_close): the same conversation, whatever pieces the caller wrote (undisturbed_offers)
    reqs = [bytes.fromhex(e[1:]) for e in trace.split(",") if e[0] in ">x"]
    frames, final_start = ideal_requests(p)
    if not p["loss"]:
        if res != "ok":
            return "undisturbed block download failed"
        if ill != "-":
            return f"undisturbed: the strict server flagged illegality {ill}"
        if reqs != frames:
            i = next((i for i, (x, y) in enumerate(zip(reqs, frames)) if x != y), min(len(reqs), len(frames)))
            return (f"undisturbed: request {i} is {reqs[i].hex() if i < len(reqs) else 'missing'}, the standard "
                    f"says {frames[i].hex() if i < len(frames) else 'nothing'}")
        return None
    if len(p["loss"]) == 1:
        g = next(iter(p["loss"]))
        if 1 <= g < final_start:
            if res != "ok":
                return f"single loss (frame {g}, not in the final sub-block) was not repaired: transfer failed"
            if ill != "-":
                return f"single loss: the strict server flagged illegality {ill}"
    return None


def signature(op, what):
    a = op.split(" ")
    if a[0] == "crc":
        return "crc:value"
    if "silent corruption" in what:
        cls = "silent-corruption"
    elif what.startswith("undisturbed"):
        cls = "undisturbed"
    elif what.startswith("single loss"):
        cls = "single-loss"
    else:
        cls = "other"
    return f"bdl:{cls}"


def nontrivial(op, out):
    return out.startswith("ok")


def classify(op, out):
    a = op.split(" ")
    if a[0] != "bdl":
        return a[0]
    nloss = len(unnl(a[8]))
    return f"bdl:{'ok' if out.startswith('ok') else 'err'}:loss{min(nloss, 2)}{'+' if nloss > 2 else ''}"


def fmt(idx, sub, data, size, crcreq, srvcrc, blks, loss, buf):
    """the operation with the raw write() offers the caller makes on the code as it is (recorded by running it)"""
    op = (f"bdl {idx} {sub} {data} {'-' if size is None else size} {int(crcreq)} {int(srvcrc)} "
          f"{nl(blks)} {nl(sorted(loss))} {buf}")
    p = parse(op + " -")
    seen = []
    run_bdl(p, seen)
    return op + " " + ("-" if hand_pattern(len(p["payload"]), seen) else nl([k for k, _ in seen]))


def shrink_candidates(op):
    a = op.split(" ")
    if a[0] != "bdl":
        return
    p = parse(op)
    n = len(p["payload"])
    sized = p["size"] == n
    for m in (n // 2, n - 7, n - 1):
        if 1 <= m < n:
            yield fmt(p["idx"], p["sub"], "h" + p["payload"][:m].hex(), m if sized else p["size"],
                      p["crcreq"], p["srvcrc"], p["blks"], p["loss"], a[9])
    for l in sorted(p["loss"]):
        yield fmt(p["idx"], p["sub"], a[3], p["size"], p["crcreq"], p["srvcrc"], p["blks"],
                  p["loss"] - {l}, a[9])
    if len(p["blks"]) > 1:
        yield fmt(p["idx"], p["sub"], a[3], p["size"], p["crcreq"], p["srvcrc"], p["blks"][:1], p["loss"], a[9])
    if p["buf"] != 0:
        yield fmt(p["idx"], p["sub"], a[3], p["size"], p["crcreq"], p["srvcrc"], p["blks"], p["loss"], 0)


# ---- generator ----------------------------------------------------------------------------------------
BUFS = [0, 1024, 7, 8, 1]
MUXES = [(0x2000, 1), (0x1F50, 0), (0xFFFF, 255), (0, 0), (0x1234, 0x56)]
CRCS = [(1, 1), (0, 1), (1, 0), (0, 0)]


def nframes(n, blks):
    """number of segment frames of the undisturbed transfer"""
    return (n + 6) // 7


def gen_ops(tier, rng):
    thorough = tier == "thorough"
    cnt = [0]

    def mk(n, blks, loss=(), crc=None, size="len", data=None, buf=None, mux=None):
        cnt[0] += 1
        c = cnt[0]
        if data is None:
            data = f"r{rng.randrange(1 << 30)}:{n}"
        cr, cs = crc if crc is not None else CRCS[c % 4 if c % 3 else 0]
        idx, sub = mux if mux is not None else MUXES[c % len(MUXES)]
        return fmt(idx, sub, data, n if size == "len" else size, cr, cs, blks, set(loss),
                   buf if buf is not None else BUFS[c % len(BUFS)])

    def rblks():
        return [rng.choice([1, 2, 3, 5, 7, 20, 126, 127, rng.randint(1, 127)]) for _ in range(rng.randint(2, 6))]

    # CRC model against binascii and the oracle's own
    for d in ("h-", "h00", "hff", "h313233343536373839", "z7", "z100", "f9"):
        for init in (0, 1, 0xFFFF, 0x1D0F):
            yield f"crc {d} {init}"
    for _ in range(40 if not thorough else 400):
        yield f"crc r{rng.randrange(1 << 30)}:{rng.randint(1, 40)} {rng.randrange(1 << 16)}"
    for b in range(256):
        yield f"crc h{b:02x} 0"

    # undisturbed: every small length x block-size streams x CRC combinations
    consts = [[1], [2], [7], [127]]
    for n in range(1, 65):
        for blks in consts + [rblks()]:
            yield mk(n, blks)
    for n in range(1, 65):
        yield mk(n, [3], data=f"z{n}", crc=(1, 1))
        yield mk(n, [127], data=f"f{n}", crc=(1, 1))
    # the payload handed over in several write() calls through the default-size buffer: the buffered writer
    # flushes at positions that are not multiples of 7 and keeps the remainder (lengths beyond one buffer)
    for n, k in ((1200, 600), (1400, 700), (2100, 1000), (1025, 1), (3000, 5), (2049, 1024), (1100, 333)) + \
            (() if not thorough else ((5000, 7), (5000, 999), (10000, 1023), (4096, 64))):
        for blks in ([127], rblks()):
            yield mk(n, blks, buf=f"1024c{k}")
    for n, bs, k in ((30, 8, 10), (64, 7, 9), (100, 2, 3), (29, 13, 1), (50, 8, 8), (15, 3, 20)):
        yield mk(n, rblks(), buf=f"{bs}c{k}")
    # every multiple of 7 +-1: up to 64*7 in the quick tier, up to 10^4 in the thorough tier
    for k in range(9, 65 if not thorough else 1430):
        for d in (-1, 0, 1):
            yield mk(7 * k + d, rng.choice(consts + [rblks()]) if k < 200 else rng.choice([[127], [127], rblks()]))
    # block boundaries blk*7*k +-1
    for blk in (1, 2, 7, 127):
        for k in ((1, 2, 3) if not thorough else range(1, 8)):
            for d in (-1, 0, 1):
                n = blk * 7 * k + d
                if n >= 1:
                    yield mk(n, [blk], crc=(1, 1))
                    yield mk(n, [blk] + rblks())
    for k in ((1, 2) if not thorough else range(1, 12)):
        for d in (-1, 0, 1):
            yield mk(889 * k + d, [127])
    yield mk(10000, [127], crc=(1, 1))
    yield mk(10000, rblks())
    if thorough:
        for _ in range(300):
            yield mk(rng.randint(1, 10000), rblks())
        yield mk(9999, [1])
        yield mk(10001, [2, 127])

    # every single lost frame position (0 = initiate, last = end request)
    singles = [(30, [3, 2]), (20, [1]), (49, [7]), (50, [7]), (15, [2, 127]), (100, [4]), (8, [127]),
               (889 + 50, [127]), (300, [20]), (64, [2])]
    if thorough:
        singles += [(889 * 2 + 1, [127, 5]), (300, rblks()), (500, [20]), (63, [3, 1]), (889 * 3 + 6, [127])]
    for n, blks in singles:
        for g in range(0, nframes(n, blks) + 3):
            yield mk(n, blks, loss=[g], crc=(1, 1) if g % 2 else None)
    big = [(889 * 2 + 1, [127, 5])] if not thorough else [(10000, [127, 64]), (9999, [127])]
    for n, blks in big:
        nf = nframes(n, blks)
        pos = {1, 2, 126, 127, 128, 129, nf - 1, nf, nf + 1, 254, 255} | {rng.randint(1, nf) for _ in range(12 if not thorough else 200)}
        for g in sorted(pos):
            yield mk(n, blks, loss=[g])
    # seeded multi-loss
    for _ in range(600 if not thorough else 4000):
        n = rng.randint(1, 200 if rng.random() < 0.8 else 2000)
        blks = rng.choice(consts + [rblks(), rblks(), [3], [4, 2]])
        nf = nframes(n, blks)
        k = rng.randint(2, 6)
        loss = {rng.randint(0, nf + 3 * k) for _ in range(k)}
        if rng.random() < 0.3:      # consecutive losses
            g = rng.randint(1, nf)
            loss = set(range(g, g + rng.randint(2, 5)))
        yield mk(n, blks, loss=loss)
    # declared size absent: every small length, raw and through buffers fed in pieces (close() completes the
    # transfer unless the length is a multiple of 7); some with a lost frame
    for n in range(1, 65):
        yield mk(n, [3] if n % 2 else rblks(), size=None)
        bs, k = rng.choice([(8, 10), (7, 9), (2, 3), (13, 1), (8, 8), (3, 20), (1024, 5), (16, 7), (32, 11)])
        yield mk(n, rblks(), size=None, buf=f"{bs}c{k}")
    for n in (700, 889 + 5, 1778, 2100) + ((5000, 889 * 4 + 3) if thorough else ()):
        yield mk(n, [127], size=None, buf=rng.choice(["1024c600", "1024c7", "0", "1024", "64c64"]))
    for n, bs, k in ((30, 8, 10), (29, 13, 1), (50, 8, 8), (22, 1024, 5)):
        for g in range(0, nframes(n, None) + 3):
            yield mk(n, [3, 2], loss=[g], size=None, buf=f"{bs}c{k}")
    # every single lost frame of transfers written in pieces through small buffers (the kept-back bytes and
    # the retransmission meet)
    for n, bs, k in ((30, 8, 10), (64, 7, 9), (100, 16, 3), (29, 13, 1), (50, 8, 8), (70, 1024, 5)) + \
            (((200, 32, 11), (889 + 30, 1024, 100)) if thorough else ()):
        for g in range(0, nframes(n, None) + 3):
            yield mk(n, rng.choice([[3], [2, 5], [127]]), loss=[g], buf=f"{bs}c{k}")
    # declared size wrong (outside the property; keeps those model branches tied)
    for n in (1, 6, 7, 8, 20, 21, 30):
        for size in (n - 1, n + 1, n + 7, 0):
            yield mk(n, [3], size=size)
            yield mk(n, [3], size=size, buf="8c3")


CORPUS = [
    "bdl 8192 1 h0102030405060708090a0b0c0d0e0f101112131415161718191a1b1c1d1e 30 1 1 3,2 - 0 -",
    "bdl 8192 1 h0102030405060708090a0b0c0d0e0f101112131415161718191a1b1c1d1e 30 1 1 3,2 2 1024 -",
    "bdl 8192 1 h0102030405060708090a0b0c0d0e0f101112131415161718191a1b1c1d1e 30 1 1 3,2 5 0 -",
    "bdl 8192 1 r1:70 70 1 1 4,2 2,6 0 -",     # nested retransmission: CRC spoilt, server aborts
    "bdl 8192 1 r1:70 70 0 0 4,2 2,6 7 -",     # same without CRC: repaired
]

LEVEL_TEXT = ("Lean 4 theorems about the model of BlockDownloadStream composed with a conformant block-download server, for "
              "every payload (1 <= length < 2^32, size declared), every stream of block sizes 1..127, CRC requested / "
              "supported or not, every multiplexer: undisturbed = ok, committed = payload, strict server flags nothing, "
              "client frames = the CiA 301 conversation (sequence numbers, c bit, n, CRC) — for ANY caller, i.e. any "
              "split of the payload into raw write() offers, each answered with the number of bytes taken "
              "(undisturbed_offers); without a declared size a payload whose length is not a multiple of 7 is completed "
              "by close() (unsized_completed_by_close); the hand loop equals the 7-byte chunk form in every environment "
              "(hand_loop_is_chunks), for which: one lost segment outside the "
              "final sub-block is repaired; under ANY set of lost client frames a normal return implies committed = "
              "payload (unbounded, any fuel); model tied to the code by generated constants and a differential run "
              "over whole transfers incl. every single-loss position and seeded multi-loss, the raw write() offers of "
              "io.BufferedWriter recorded and replayed")
LEVEL_NOTE = ("trusted: Lean kernel + propext/Classical.choice/Quot.sound; the reference server specification (written "
              "twice); queue/time-out/BufferedWriter abstractions named in the trusted base; the retransmission "
              "recursion is modelled with an explicit continuation stack and fuel, and fuel_suffices proves the fuel "
              "the driver passes is never exhausted for any finite loss set (hand loop; for other callers the loss "
              "theorems are not stated and the explicit fuel is covered by the differential run only); size not "
              "declared and a length that is a multiple of 7 fails (no segment can carry c=1) — allowed by the property")
TECHNIQUE = "Lean 4 proof over generated tables + differential correspondence with the implementation"
