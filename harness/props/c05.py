"""C05 — PDO variables occupy exactly their mapped bits."""
import itertools

import canopen
from canopen import objectdictionary as od
from canopen.pdo.base import PdoBase, PdoMap

from props import c04

ID = "C05"
PROOF_MODULES = ["CanopenProofs.C05", "CanopenProofs.C05Lookup"]
GENERATED = ["Datatypes"]
THEOREMS = [
    "Canopen.C05.offsets_disjoint",
    "Canopen.C05.get_is_field",
    "Canopen.C05.read_is_typed_field",
    "Canopen.C05.read_bool_real",
    "Canopen.C05.set_changes_exactly_field",
    "Canopen.C05.write_sets_low_bits",
    "Canopen.C05.get_set",
    "Canopen.C05.neighbour_unchanged",
    # the way a variable is addressed (CanopenProofs/C05Lookup.lean)
    "Canopen.C05.by_name_reaches_named_field",
    "Canopen.C05.by_name_refused_iff",
    "Canopen.C05.by_index_reaches_indexed_field",
    "Canopen.C05.access_path_independent",
    "Canopen.C05.coll_reaches_first_map_with_it",
    "Canopen.C05.coll_name_reaches_named_field",
    "Canopen.C05.read_by_key_is_its_field",
    "Canopen.C05.write_by_key_changes_only_its_field",
]
FINGERPRINT = [
    "canopen.pdo.base:PdoVariable.get_data",
    "canopen.pdo.base:PdoVariable.set_data",
    "canopen.pdo.base:PdoVariable.__init__",
    "canopen.pdo.base:PdoMap.add_variable",
    "canopen.pdo.base:PdoMap.clear",
    "canopen.pdo.base:PdoMap.read",
    "canopen.pdo.base:PdoMap._update_data_size",
    "canopen.variable:Variable.raw",
    "canopen.variable:Variable.data",
    "canopen.variable:Variable.__init__",
    "canopen.pdo.base:PdoMap.__getitem__",
    "canopen.pdo.base:PdoMap._PdoMap__getitem_by_index",
    "canopen.pdo.base:PdoMap._PdoMap__getitem_by_name",
    "canopen.pdo.base:PdoBase.__getitem__",
    "canopen.pdo:PDO.__init__",
]
TRUSTED = c04.TRUSTED + [
    "Python int.from_bytes / int.to_bytes / bytearray slice assignment modelled as leVal / leBytes / "
    "take-drop (CanopenModel/Pdo/Bits.lean)"]
ASSUMPTIONS = ["layouts as in the property: objects mapped with their own bit length, BOOLEAN and the "
               "8-bit types also with a sub-byte length; total at most 64 bits",
               "keys: ints, and strs made of letters, digits and dots (what int(key, 16) accepts among these is "
               "modelled: optional 0x/0X and hex digits); a str key that int(key, 16) accepts is an object index by "
               "the API, whatever variables are named"]
RULE = ("ops lay/get/set: every layout of 1..2 objects over all types and sub-byte lengths (quick), "
        "seeded layouts of 3..8 objects; all 2^len values for fields up to 12 bits, boundary values "
        "above; frames 00.., ff.., alternating, seeded; non-trivial = implementation returned a value; "
        "ops kget/kset: the variable is addressed through a key - position, index (int, hex str), full name - on "
        "one map or through node.rpdo/node.tpdo/node.pdo, over seeded dictionaries of plain variables, records and "
        "arrays whose names collide (member short name = another variable's full name, prefixes, case, dots, hex "
        "literals), duplicate mappings, entries without bits, 1..3 maps; every object by full name, own name, "
        "index, near-miss names, every position, map numbers; non-trivial = a variable was reached or the key refused")

INT = c04.SPEC          # type -> (width, signed)
REALS = {0x08: 32, 0x11: 64}
BOOL = 0x01
ALL_TYPES = sorted(INT) + [BOOL] + sorted(REALS)


def width(t):
    return INT[t][0] if t in INT else (8 if t == BOOL else REALS[t])


_OD = None


def the_od():
    global _OD
    if _OD is None:
        d = od.ObjectDictionary()
        for t in ALL_TYPES:
            v = od.ODVariable(f"v{t}", 0x2000 + t, 0)
            # the entry is (re)typed after its length has been asked for once: len() follows the type in force
            v.data_type = 0x05 if t != 0x05 else 0x07
            len(v)
            v.data_type = t
            d.add_object(v)
        _OD = d
    return _OD


def build_via_read(layout):
    """the same map, but obtained by PdoMap.read(from_od=True) from mapping parameters 0x1600"""
    d = od.ObjectDictionary()
    for t in ALL_TYPES:
        v = od.ODVariable(f"v{t}", 0x2000 + t, 0)
        v.data_type = t
        d.add_object(v)
    com = od.ODRecord("com", 0x1400)
    for sub, t, val in ((0, 0x05, 2), (1, 0x07, 0x201), (2, 0x05, 255)):
        v = od.ODVariable(f"c{sub}", 0x1400, sub)
        v.data_type, v.value = t, val
        com.add_member(v)
    d.add_object(com)
    mp = od.ODRecord("map", 0x1600)
    v = od.ODVariable("m0", 0x1600, 0)
    v.data_type, v.value = 0x05, len(layout)
    mp.add_member(v)
    for i, (t, ln) in enumerate(layout, 1):
        v = od.ODVariable(f"m{i}", 0x1600, i)
        v.data_type, v.value = 0x07, ((0x2000 + t) << 16) | ln
        mp.add_member(v)
    d.add_object(mp)
    node = canopen.RemoteNode(1, d)
    canopen.Network().add_node(node)
    node.rpdo.read(from_od=True)
    m = node.rpdo[1]
    if len(m.map) != len(layout):
        raise ValueError("mapping entries lost")
    return m, list(m.map)


def build(layout, before=None, via_read=False):
    if via_read:
        return build_via_read(layout)
    node = canopen.RemoteNode(1, the_od())
    m = PdoMap(PdoBase(node), None, None)
    if before is not None:
        # history: the map held other variables and was cleared (`old|new`)
        for t, ln in before:
            m.add_variable(0x2000 + t, 0, ln)
        m.clear()
    vars_ = []
    for t, ln in layout:
        # an object mapped with its full length is mapped without naming the length (the entry's own size)
        vars_.append(m.add_variable(0x2000 + t, 0, None if ln == width(t) else ln))
    return m, vars_


def parse_layout(s):
    """the layout in force; `old|new` = `new` mapped after a map holding `old` was cleared"""
    s = s.split("|")[-1]
    if s.startswith("rd~"):
        s = s[3:]
    return [tuple(int(x) for x in e.split(":")) for e in s.split(",")]


def parse_before(s):
    return parse_layout(s.split("|")[0]) if "|" in s else None


# ------------------------------------------------------------------- access through a key
# `kget how key maps frames` / `kset how key maps frames kind value`
#   maps    map/map/...; a map is `-` (no entries) or entry,entry,...; an entry is
#           `type:len:index:sub:parent:name` (decimal numbers; parent `-` = plain variable, `r<name>` /
#           `a<name>` = member of the record / array <name>); the object dictionary holds exactly the
#           objects the entries name
#   frames  one frame per map, `/`-separated
#   how     `m<j>` = `node.tpdo[j + 1][key]`, `t` = `node.tpdo[key]`, `r` = `node.rpdo[key]`,
#           `p<k>` = `node.pdo[key]` with the first k maps being receive maps, the others transmit maps
#   key     `n<decimal>` an int, `s<chars>` a str (names: letters, digits, dots)
# output: `ok <map> <position> <value>` / `ok <map> <position> <frame>/<frame>...` (all frames afterwards),
#         `ok <map> <position> err` (variable found, access raised), `ok map <j>` (the key selected a map),
#         `err` (lookup raised)
def parse_maps(s):
    maps = []
    for m in s.split("/"):
        ents = []
        if m != "-":
            for e in m.split(","):
                t, ln, ix, sb, par, nm = e.split(":")
                ents.append((int(t), int(ln), int(ix), int(sb), None if par == "-" else par, nm))
        maps.append(ents)
    return maps


def show_maps(maps):
    return "/".join(",".join(f"{t}:{ln}:{ix}:{sb}:{par or '-'}:{nm}" for t, ln, ix, sb, par, nm in m) or "-"
                    for m in maps)


def parse_key(k):
    return int(k[1:]) if k[0] == "n" else k[1:]


def full_name(ent):
    """the name the property speaks of: `Parent.Member` for a member of a record or an array"""
    return ent[5] if ent[4] is None else ent[4][1:] + "." + ent[5]


def build_named(maps, how):
    """a node whose dictionary holds the objects the entries name and whose PDO maps hold the entries"""
    d = od.ObjectDictionary()
    for ents in maps:
        for t, ln, ix, sb, par, nm in ents:
            if par is None:
                if ix in d.indices:
                    o = d[ix]
                    if not isinstance(o, od.ODVariable) or (o.name, o.subindex, o.data_type) != (nm, sb, t):
                        raise ValueError("inconsistent entries")
                    continue
                v = od.ODVariable(nm, ix, sb)
                v.data_type = t
                d.add_object(v)
            else:
                cls = od.ODRecord if par[0] == "r" else od.ODArray
                if ix not in d.indices:
                    d.add_object(cls(par[1:], ix))
                o = d[ix]
                if type(o) is not cls or o.name != par[1:]:
                    raise ValueError("inconsistent entries")
                if sb in o.subindices:
                    if (o.subindices[sb].name, o.subindices[sb].data_type) != (nm, t):
                        raise ValueError("inconsistent entries")
                    continue
                v = od.ODVariable(nm, ix, sb)
                v.data_type = t
                o.add_member(v)
    nrx = len(maps) if how == "r" else int(how[1:]) if how[0] == "p" else 0
    where = []
    for j in range(len(maps)):
        rx = j < nrx
        n = j if rx else j - nrx
        com, mp = (0x1400, 0x1600) if rx else (0x1800, 0x1A00)
        rec = od.ODRecord(f"com{j}", com + n)
        for sub, t in ((0, 0x05), (1, 0x07), (2, 0x05)):
            v = od.ODVariable(f"c{sub}", com + n, sub)
            v.data_type = t
            rec.add_member(v)
        d.add_object(rec)
        arr = od.ODArray(f"mapping{j}", mp + n)
        for sub in range(0, 2):
            v = od.ODVariable(f"e{sub}", mp + n, sub)
            v.data_type = 0x05 if sub == 0 else 0x07
            arr.add_member(v)
        d.add_object(arr)
        where.append((rx, n + 1))
    node = canopen.RemoteNode(1, d)
    pdomaps = [(node.rpdo if rx else node.tpdo)[n] for rx, n in where]
    for m, ents in zip(pdomaps, maps):
        for t, ln, ix, sb, par, nm in ents:
            if m.add_variable(ix, sb, None if ln == width(t) else ln) is None:
                raise ValueError("entry not mapped")
    return node, pdomaps


def run_keyed(a):
    how, key, maps, frames = a[1], parse_key(a[2]), parse_maps(a[3]), [c04.unhx(f) for f in a[4].split("/")]
    if len(frames) != len(maps):
        return "bad-op"
    if (how[0] == "m" and int(how[1:]) >= len(maps)) or (how[0] == "p" and int(how[1:]) > len(maps)):
        return "bad-op"
    try:
        node, pdomaps = build_named(maps, how)
    except ValueError:
        return "bad-op"
    for m, fr in zip(pdomaps, frames):
        m.data = bytearray(fr)
    try:
        if how[0] == "m":
            var = pdomaps[int(how[1:])][key]
        else:
            var = {"t": node.tpdo, "r": node.rpdo, "p": node.pdo}[how[0]][key]
    except Exception:
        return "err"
    for j, m in enumerate(pdomaps):
        if var is m:
            return f"ok map {j}"
    # which mapped variable is it (identity, not name)
    at = [(j, i) for j, m in enumerate(pdomaps) for i, v in enumerate(m.map) if v is var]
    if len(at) != 1:
        return f"ok ? ? {type(var).__name__}"
    j, i = at[0]
    t = maps[j][i][0]
    try:
        if a[0] == "kget":
            return f"ok {j} {i} " + c04.show_val(var.raw, str(t))
        if a[5] == "int":
            var.raw = int(a[6])
        elif a[5] == "bool":
            var.raw = a[6] == "1"
        else:
            eb, mb = (8, 23) if t == 0x08 else (11, 52)
            var.raw = c04.bits_to_float(int(a[6]), eb, mb)
        return f"ok {j} {i} " + "/".join(c04.hx(bytes(m.data)) for m in pdomaps)
    except Exception:
        return f"ok {j} {i} err"


def run_impl(op):
    a = op.split(" ")
    if a[0] in ("kget", "kset"):
        return run_keyed(a)
    layout = parse_layout(a[1])
    try:
        m, vs = build(layout, parse_before(a[1]), via_read=a[1].startswith("rd~"))
    except Exception:
        return "err"
    if a[0] == "lay":
        return "ok " + c04.nl([v.offset for v in vs]) + f" {len(m.data)}"
    m.data = bytearray(c04.unhx(a[2]))
    i = int(a[3])
    t = layout[i][0]
    try:
        if a[0] == "get":
            return "ok " + c04.show_val(vs[i].raw, str(t))
        if a[0] == "set":
            if a[4] == "int":
                vs[i].raw = int(a[5])
            elif a[4] == "bool":
                vs[i].raw = a[5] == "1"
            else:
                eb, mb = (8, 23) if t == 0x08 else (11, 52)
                vs[i].raw = c04.bits_to_float(int(a[5]), eb, mb)
            return "ok " + c04.hx(bytes(m.data))
    except Exception:
        return "err"
    return "bad-op"


def canon_model(op, out):
    a = op.split(" ")
    if a[0] == "kget":
        f = out.split(" ")
        if len(f) == 5 and f[3] == "real":
            t = parse_maps(a[3])[int(f[1])][int(f[2])][0]
            if c04.is_nan_pattern(t, int(f[4])):
                return " ".join(f[:4] + ["nan"])
        return out
    if a[0] == "get" and out.startswith("ok real "):
        t = parse_layout(a[1])[int(a[3])][0]
        if c04.is_nan_pattern(t, int(out[8:])):
            return "ok real nan"
    return out


def offsets(layout):
    o, acc = [], 0
    for _, ln in layout:
        o.append(acc)
        acc += ln
    return o, acc


def judge_get(layout, frame, i, out):
    """`out` (`ok <value>` / `err`) against the value of exactly the bit field of entry i"""
    offs, total = offsets(layout)
    if len(frame) != (total + 7) // 8 or layout[i][1] == 0:
        return None
    t, ln = layout[i]
    off = offs[i]
    f = (int.from_bytes(frame, "little") >> off) & ((1 << ln) - 1)
    if t in INT:
        v = f - (1 << ln) if INT[t][1] and f >> (ln - 1) else f
        exp = f"ok int {v}"
    elif t == BOOL:
        exp = f"ok bool {int(f != 0)}"
    else:
        exp = "ok real nan" if c04.is_nan_pattern(t, f) else f"ok real {f}"
    return None if out == exp else f"read of bits [{off},{off + ln}) gave {out}, field holds {exp}"


def judge_set(layout, frame, i, kind, v, out):
    """`out` (`ok <frame>` / `err`) against the update of exactly the bit field of entry i"""
    offs, total = offsets(layout)
    size = (total + 7) // 8
    if len(frame) != size or layout[i][1] == 0:
        return None
    t, ln = layout[i]
    off = offs[i]
    x = int.from_bytes(frame, "little")
    mask = (1 << ln) - 1
    if kind == "int":
        if t in INT:
            w, s = INT[t]
            lo, hi = (-(1 << (w - 1)), (1 << (w - 1)) - 1) if s else (0, (1 << w) - 1)
            if not lo <= v <= hi:
                return None if out == "err" else f"out-of-range write accepted: {out}"
        elif t == BOOL:
            v = 1 if v else 0
        else:
            return None
    nx = (x & ~(mask << off)) | ((v & mask) << off)
    exp = "ok " + c04.hx(nx.to_bytes(size, "little"))
    return None if out == exp else (f"write of {v} into bits [{off},{off + ln}) gave {out}, "
                                    f"exactly-the-field update is {exp}")


def is_hex_literal(s):
    """a str key that the API takes for an object index (`pdo['0x2000']`)"""
    try:
        int(s, 16)
        return True
    except ValueError:
        return False


def must_reach(how, key, maps):
    """Reference for the addressing part of the property: which mapped variables (map, position) an access
    with this key may reach.  Returns (kind, candidates) - an empty candidate set means the access has to be
    refused - or None when the statement does not say (map numbers, positions through a collection)."""
    scope = [int(how[1:])] if how[0] == "m" else list(range(len(maps)))
    real = [(j, i, e) for j in scope for i, e in enumerate(maps[j]) if e[1] > 0]     # variables that own bits
    if isinstance(key, int):
        if how[0] == "m" and 0 <= key < 8:
            return "position", ([(how_j, key) for how_j in scope] if key < len(maps[scope[0]]) else [])
        if how[0] != "m" and (0 <= key < 8 or 0 < key <= 512 or 0x1600 <= key <= 0x17FF or 0x1A00 <= key <= 0x1BFF):
            return None
        return "index", [(j, i) for j, i, e in real if e[2] == key]
    if is_hex_literal(key):
        k = int(key, 16)
        return "hex", [(j, i) for j, i, e in real if e[2] == k]
    return "name", [(j, i) for j, i, e in real if full_name(e) == key]


def oracle_keyed(a, out):
    how, key, maps = a[1], parse_key(a[2]), parse_maps(a[3])
    frames = [c04.unhx(f) for f in a[4].split("/")]
    if out == "bad-op":
        return None
    ref = must_reach(how, key, maps)
    if ref is None:
        return None
    kind, cands = ref
    shown = f"{'int' if isinstance(key, int) else 'str'} key {key!r} ({kind})"
    f = out.split(" ")
    if f[0] == "err":
        if cands:
            j, i = cands[0]
            return (f"{shown} was refused although the mapped variable {full_name(maps[j][i])!r} "
                    f"(0x{maps[j][i][2]:04X}, map {j} position {i}) is addressed by it")
        return None
    if f[0] != "ok" or len(f) < 3 or f[1] == "map":
        return f"{shown} gave {out}, not a mapped variable"
    if f[1] == "?":
        return f"{shown} returned an object that is not one of the mapped variables"
    j, i = int(f[1]), int(f[2])
    if (j, i) not in cands:
        e = maps[j][i]
        want = ("no mapped variable is addressed by it, the access has to be refused" if not cands else
                "it addresses " + ", ".join(f"{full_name(maps[x][y])!r} (0x{maps[x][y][2]:04X}) at map {x} position {y}"
                                            for x, y in cands[:3]))
        return (f"{shown} reached {full_name(e)!r} (0x{e[2]:04X}, map {j} position {i}, {e[1]} bits): {want}")
    layout = [(e[0], e[1]) for e in maps[j]]
    rest = " ".join(f[3:])
    if a[0] == "kget":
        w = judge_get(layout, frames[j], i, "err" if rest == "err" else "ok " + rest)
        return None if w is None else f"{shown}, variable {full_name(maps[j][i])!r}: {w}"
    if rest == "err":
        w = judge_set(layout, frames[j], i, a[5], int(a[6]), "err")
        return None if w is None else f"{shown}, variable {full_name(maps[j][i])!r}: {w}"
    after = rest.split("/")
    if len(after) != len(frames):
        return f"{shown}: {len(after)} frames after the write, {len(frames)} before"
    for x, (b, c) in enumerate(zip(frames, after)):
        if x != j and c04.hx(b) != c:
            return f"{shown}: the write into map {j} changed the frame of map {x} from {c04.hx(b)} to {c}"
    w = judge_set(layout, frames[j], i, a[5], int(a[6]), "ok " + after[j])
    return None if w is None else f"{shown}, variable {full_name(maps[j][i])!r}: {w}"


def oracle(op, out):
    a = op.split(" ")
    if a[0] in ("kget", "kset"):
        return oracle_keyed(a, out)
    layout = parse_layout(a[1])
    offs, total = offsets(layout)
    size = (total + 7) // 8
    if a[0] == "lay":
        exp = "ok " + c04.nl(offs) + f" {size}"
        return None if out == exp else f"layout gave {out}, expected {exp}"
    frame = c04.unhx(a[2])
    i = int(a[3])
    if a[0] == "get":
        return judge_get(layout, frame, i, out)
    if a[0] == "set":
        return judge_set(layout, frame, i, a[4], int(a[5]), out)
    return None


def key_kind(a):
    ref = must_reach(a[1], parse_key(a[2]), parse_maps(a[3]))
    return "other" if ref is None else ref[0]


def signature(op, what):
    a = op.split(" ")
    if a[0] in ("kget", "kset"):
        addressing = any(w in what for w in (" reached ", " was refused ", "not a mapped variable",
                                             "not one of the mapped variables"))
        return f"{a[0]}:{key_kind(a)}:{'addressing' if addressing else 'field'}"
    layout = parse_layout(a[1])
    offs, _ = offsets(layout)
    if a[0] == "lay":
        return "lay"
    i = int(a[3])
    t, ln = layout[i]
    aligned = offs[i] % 8 == 0 and ln % 8 == 0
    return f"{a[0]}:{'aligned' if aligned else 'bits'}:{'signed' if t in INT and INT[t][1] else 'other'}"


def nontrivial(op, out):
    # a refused key is a meaningful outcome of an access through a key
    return out.startswith("ok") or (op.startswith("k") and out == "err")


def classify(op, out):
    a = op.split(" ")
    if a[0] in ("kget", "kset"):
        f = out.split(" ")
        res = "refused" if f[0] == "err" else "map" if f[1:2] == ["map"] else "raised" if f[-1] == "err" else "ok"
        return f"{a[0]}:{'map' if a[1][0] == 'm' else 'coll'}:{key_kind(a)}:{res}"
    if a[0] == "lay":
        return "lay"
    layout = parse_layout(a[1])
    offs, _ = offsets(layout)
    i = int(a[3])
    aligned = offs[i] % 8 == 0 and layout[i][1] % 8 == 0
    return f"{a[0]}:{'aligned' if aligned else 'bits'}:{'ok' if out.startswith('ok') else 'err'}"


def shrink_keyed(a):
    maps = parse_maps(a[3])
    frames = [c04.unhx(f) for f in a[4].split("/")]

    def fit(m, fr):
        size = (sum(e[1] for e in m) + 7) // 8
        return (fr + bytes(size))[:size]

    def emit(how, ms, frs):
        return " ".join([a[0], how, a[2], show_maps(ms), "/".join(c04.hx(f) for f in frs)] + a[5:])

    how = a[1]
    # drop a whole map (keeping the one a direct access names and the receive/transmit split valid)
    for j in range(len(maps)):
        if len(maps) == 1:
            break
        h = how
        if how[0] == "m":
            k = int(how[1:])
            if k == j:
                continue
            h = f"m{k - 1 if k > j else k}"
        elif how[0] == "p":
            k = int(how[1:])
            h = f"p{k - 1 if j < k else k}"
        yield emit(h, maps[:j] + maps[j + 1:], frames[:j] + frames[j + 1:])
    # drop one entry
    for j, m in enumerate(maps):
        for i in range(len(m)):
            m2 = m[:i] + m[i + 1:]
            yield emit(how, maps[:j] + [m2] + maps[j + 1:], frames[:j] + [fit(m2, frames[j])] + frames[j + 1:])
    # zero the frames
    if any(any(f) for f in frames):
        yield emit(how, maps, [bytes(len(f)) for f in frames])


def shrink_candidates(op):
    a = op.split(" ")
    if a[0] in ("kget", "kset"):
        yield from shrink_keyed(a)
        return
    if a[0] in ("get", "set"):
        layout = parse_layout(a[1])
        i = int(a[3])
        frame = c04.unhx(a[2])
        # drop a later entry / zero the frame
        if len(layout) > i + 1:
            nl_ = layout[:-1]
            size = (sum(l for _, l in nl_) + 7) // 8
            yield " ".join([a[0], ",".join(f"{t}:{l}" for t, l in nl_), c04.hx(frame[:size]), a[3]] + a[4:])
        z = bytes(len(frame))
        if frame != z:
            yield " ".join([a[0], a[1], c04.hx(z)] + a[3:])


def lens_for(t):
    w = width(t)
    if w == 8:
        return [1] if t == BOOL else list(range(1, 9))
    return [w]


def frames_for(size, rng, n):
    out = [bytes(size), b"\xff" * size, bytes((0xAA if k % 2 else 0x55) for k in range(size))]
    for _ in range(n):
        out.append(bytes(rng.getrandbits(8) for _ in range(size)))
    return out


def values_for(t, ln, rng, tier):
    if t in INT:
        w, s = INT[t]
        lo, hi = (-(1 << (w - 1)), (1 << (w - 1)) - 1) if s else (0, (1 << w) - 1)
        vals = {lo, hi, 0, 1, hi - 1, lo + 1, hi + 1, lo - 1}
        if s:
            vals |= {-1, -(1 << (ln - 1)), (1 << (ln - 1)) - 1}
        vals |= {(1 << ln) - 1, 1 << (ln - 1), min(hi, 1 << ln), min(hi, (1 << ln) + 1)}
        if ln <= (12 if tier == "thorough" else 6):
            flo = -(1 << (ln - 1)) if s else 0
            vals |= set(range(flo, flo + (1 << ln)))
        for _ in range(3):
            vals.add(rng.randint(lo, hi))
        return [("int", v) for v in sorted(vals)]
    if t == BOOL:
        return [("bool", 0), ("bool", 1)]
    w = REALS[t]
    return [("real", p) for p in (0, 1, 0x3F800000 if w == 32 else 0x3FF0000000000000,
                                  (1 << (w - 1)), rng.getrandbits(w - 2))]


# names chosen so that they collide: short names of members equal to full names of other variables, names that
# are prefixes of each other, that differ in case only, that contain the separator, that int(.., 16) accepts
OWN_NAMES = ["Speed", "Torque", "Spee", "Speed1", "S", "Axis", "Limit", "speed", "ADC", "Feed", "2001", "0x2002",
             "Axis.Speed", "Speed.S", "A.S", "x1"]
PARENT_NAMES = ["Axis", "Axis1", "Speed", "A", "Axis.Speed", "ADC", "S", "A.S"]
OBJ_INDICES = [0x2000, 0x2001, 0x2002, 0x2003, 0x2004, 0x0ADC, 0xFEED]
KEYED_TYPES = [0x02, 0x03, 0x04, 0x05, 0x06, 0x07, 0x10, 0x16, BOOL]


def gen_scenario(rng):
    """a dictionary of 2..5 objects (plain variables, records, arrays) drawn from few names, and 1..3 maps over it"""
    own = rng.sample(OWN_NAMES, rng.randint(2, 4))
    parents = rng.sample(PARENT_NAMES, 2)
    objs = []
    for ix in rng.sample(OBJ_INDICES, rng.randint(2, 4)):
        if rng.random() < 0.45:
            objs.append((rng.choice(KEYED_TYPES), ix, 0, None, rng.choice(own)))
        else:
            par = rng.choice("ra") + rng.choice(parents)
            for sb in sorted(rng.sample(range(0, 4), rng.randint(1, 3))):
                objs.append((rng.choice(KEYED_TYPES), ix, sb, par, rng.choice(own)))
    maps = []
    for _ in range(rng.choice([1, 1, 2, 2, 3])):
        m, total = [], 0
        for _ in range(rng.choice([0, 2, 3, 3, 4, 4, 5, 6])):
            t, ix, sb, par, nm = rng.choice(objs)
            ln = rng.choice(lens_for(t))
            if rng.random() < 0.06:
                ln = 0                      # an entry without bits: the lookups pass over it
            if total + ln > 64:
                continue
            m.append((t, ln, ix, sb, par, nm))
            total += ln
        maps.append(m)
    return objs, maps


def scenario_keys(objs, maps, rng):
    keys = []
    mapped = {(e[2], e[3]) for m in maps for e in m}
    for t, ix, sb, par, nm in objs:
        full = nm if par is None else par[1:] + "." + nm
        # every object by its full name, by its own name, by index (int, hex str, 0x str)
        keys += ["s" + full, "s" + nm, f"n{ix}", rng.choice([f"s{ix:x}", f"s0x{ix:04X}", f"s{ix:04X}", f"s0X{ix:x}"])]
        if (ix, sb) in mapped:
            # near misses of a mapped name: a prefix, an extension, the parent alone
            keys += rng.sample(["s" + full[:-1], "s" + full + "1", "s" + full.lower(), "s." + nm, "s" + full + "."], 2)
            if par is not None:
                keys += [rng.choice(["s" + par[1:], "s" + par[1:] + "."])]
    keys += [f"n{k}" for k in range(0, max(len(m) for m in maps) + 1)] + ["n7", "n8"]
    keys += rng.sample(["n512", "n513", "n5632", "n5633", "n6656", "n6657", "n1", "n2", "n3", "n4"], 3)
    keys += ["n8200", "s2009", "s" + rng.choice(OWN_NAMES), "s" + rng.choice(PARENT_NAMES) + "." + rng.choice(OWN_NAMES)]
    out = []
    for k in keys:
        if k not in out and len(k) > 1:
            out.append(k)
    return out


def keyed_value(how, key, maps, rng):
    """a value for the variable the key addresses (by the reference), in range most of the time"""
    ref = must_reach(how, parse_key(key), maps)
    t, ln = 0x05, 8
    if ref and ref[1]:
        j, i = ref[1][0]
        if i < len(maps[j]):
            t, ln = maps[j][i][0], maps[j][i][1]
    if t == BOOL:
        return "bool", rng.randint(0, 1)
    w, sg = INT[t]
    lo, hi = (-(1 << (w - 1)), (1 << (w - 1)) - 1) if sg else (0, (1 << w) - 1)
    return "int", rng.choice([lo, hi, 0, 1, -1 if sg else hi - 1, (1 << max(ln, 1)) - 1 if (1 << max(ln, 1)) - 1 <= hi else hi,
                              rng.randint(lo, hi), rng.randint(lo, hi), hi + 1])


def gen_keyed(tier, rng):
    for _ in range(60 if tier == "quick" else 700):
        objs, maps = gen_scenario(rng)
        ms = show_maps(maps)
        sizes = [(sum(e[1] for e in m) + 7) // 8 for m in maps]
        hows = [f"m{j}" for j in range(len(maps))] + ["t", "r"] + [f"p{k}" for k in range(len(maps) + 1)]
        for key in scenario_keys(objs, maps, rng):
            if tier == "quick":
                use = [rng.choice(hows[:len(maps)]), rng.choice(hows[len(maps):])]
            else:
                use = hows[:len(maps)] + rng.sample(hows[len(maps):], 2)
            for how in use:
                frs = "/".join(c04.hx(rng.choice(frames_for(n, rng, 1))) for n in sizes)
                yield f"kget {how} {key} {ms} {frs}"
                ref = must_reach(how, parse_key(key), maps)
                if ref is not None and not ref[1] and rng.random() < 0.8:
                    continue                # a key that has to be refused: the read says it all, most of the time
                frs = "/".join(c04.hx(rng.choice(frames_for(n, rng, 1))) for n in sizes)
                kind, v = keyed_value(how, key, maps, rng)
                yield f"kset {how} {key} {ms} {frs} {kind} {v}"


def gen_ops(tier, rng):
    # the accesses through a key come first (a failing-input search reaches them at once); own generator state
    import random as _random
    yield from gen_keyed(tier, _random.Random(rng.getrandbits(64)))
    singles = [(t, ln) for t in ALL_TYPES for ln in lens_for(t)]
    layouts = [[e] for e in singles]
    # every pair: the second object lands at every offset the first produces
    for a_, b_ in itertools.product(singles, singles):
        if a_[1] + b_[1] <= 64:
            layouts.append([a_, b_])
    if tier == "quick":
        pairs = layouts[len(singles):]
        rng.shuffle(pairs)
        layouts = layouts[:len(singles)] + pairs[:400]
    # seeded longer layouts, biased to sub-byte prefixes so that wide objects land unaligned
    for _ in range(300 if tier == "quick" else 4000):
        lay, total = [], 0
        for _ in range(rng.randint(3, 8)):
            t, ln = rng.choice(singles) if rng.random() < 0.6 else rng.choice([e for e in singles if e[1] < 8])
            if total + ln > 64:
                continue
            lay.append((t, ln))
            total += ln
        if lay:
            layouts.append(lay)
    nfr = 1 if tier == "quick" else 3
    for lay in layouts:
        ls = ",".join(f"{t}:{l}" for t, l in lay)
        r = rng.random()
        if r < 0.12:
            old = rng.choice(layouts)
            ls = ",".join(f"{t}:{l}" for t, l in old) + "|" + ls
        elif r < 0.3 or any(l == 64 for _, l in lay):
            ls = "rd~" + ls           # the map comes from the mapping parameters (PdoMap.read)
        yield f"lay {ls}"
        size = (sum(l for _, l in lay) + 7) // 8
        idxs = range(len(lay)) if len(lay) <= 2 else [rng.randrange(len(lay)) for _ in range(2)]
        for i in idxs:
            t, ln = lay[i]
            for fr in frames_for(size, rng, nfr):
                yield f"get {ls} {c04.hx(fr)} {i}"
            vals = values_for(t, ln, rng, tier)
            if len(lay) > 1 and len(vals) > 12:
                vals = rng.sample(vals, 12)
            for k, v in vals:
                fr = rng.choice(frames_for(size, rng, 1))
                yield f"set {ls} {c04.hx(fr)} {i} {k} {v}"


_DEMO = "3:16:8192:1:rAxis:Speed,3:16:8192:2:rAxis:Torque,5:8:8208:0:-:Speed,5:8:8209:0:-:Limit"
CORPUS = [
    "lay rd~27:64",                     # a 64-bit object mapped with its full length, map read from 0x1600
    "get rd~5:8,2:4,2:4 00f0 2",
    "lay 5:8,5:8,5:8|2:4,2:4,2:4",      # a map that is cleared and filled again starts at bit 0 again
    "get 1:1,6:16 000001 1",            # F2: UNSIGNED16 at bit offset 1 spills out of its byte window
    "set 1:1,6:16 000000 1 int 65535",
    "get 2:4 08 0",                     # F2: most negative 4-bit value
    "set 2:4,2:4 50 0 int -1",          # F2: negative write clobbered the neighbour
    "set 5:4,5:4 00 1 int 31",
    "get 1:1,8:32 0000000001 1",        # REAL32 at a bit offset
    # access through a key: `Axis.Speed`, `Axis.Torque`, a plain `Speed` and `Limit` in one map
    f"kget m0 sSpeed {_DEMO} 341278569abc",             # the plain variable (position 2), not the member Axis.Speed
    f"kget m0 sAxis.Speed {_DEMO} 341278569abc",
    f"kget m0 sTorque {_DEMO} 341278569abc",            # a member's short name is nobody's full name: refused
    f"kget m0 sAxis {_DEMO} 341278569abc",
    f"kset m0 sSpeed {_DEMO} 341278569abc int 17",
    f"kget t sSpeed -/{_DEMO} -/341278569abc",          # node.tpdo['Speed'], past a map without it
    f"kset p1 sSpeed {_DEMO}/{_DEMO} 341278569abc/000000000000 int 17",     # node.pdo['Speed']: first map only
    f"kget r n8208 {_DEMO} 341278569abc",               # node.rpdo[0x2010]
    f"kget m0 s2010 {_DEMO} 341278569abc",              # pdo['2010']: a hex str is an index
    f"kget m0 n8192 {_DEMO} 341278569abc",              # pdo[0x2000]: first variable of that index
    f"kget m0 n3 {_DEMO} 341278569abc",                 # by position
    f"kget m0 n4 {_DEMO} 341278569abc",                 # a position beyond the map
    f"kget t n0 -/{_DEMO} -/341278569abc",              # node.tpdo[0]: IndexError of the first map ends the lookup
    f"kget p1 n6656 {_DEMO}/{_DEMO} 341278569abc/000000000000",             # node.pdo[0x1A00] is a map
    f"kget m0 sspeed {_DEMO} 341278569abc",             # names are case-sensitive
    f"kget m0 sSpee {_DEMO} 341278569abc",              # a prefix of a name is not the name
    f"kget m0 sSpeed.Speed {_DEMO} 341278569abc",
    "kget m0 sX 5:0:8192:0:-:X,5:8:8192:0:-:X 7f",     # an entry without bits is passed over
    "kget m0 n8192 5:0:8192:0:-:X,5:8:8192:0:-:X 7f",
    "kget m0 sADC 5:8:8192:0:-:ADC,5:8:2780:0:-:Y 1122",                   # a name that reads as hex is an index
    "kset m0 sA.B 5:4:8192:0:-:A.B,5:4:8193:1:rA:B 00 int 15",             # two variables of one full name: first
]

LEVEL_TEXT = ("Lean 4 theorems for every frame, every bit offset and length and every value: a read returns exactly "
              "the bit field (sign-extended for signed types), a write changes exactly those bits to the value's low "
              "bits and leaves every other bit and the frame length unchanged, hence read-after-write and neighbour "
              "isolation; offsets of add_variable are disjoint prefix sums; a key (position, index, full name; on a map "
              "or through node.rpdo/tpdo/pdo) reaches the first variable whose index / full name is the key and is "
              "refused when there is none, so reads and writes through a key are reads and writes of that field; "
              "tied to the code by a differential run over all 1- and 2-object layouts, seeded layouts of up to 8 "
              "objects and seeded dictionaries with colliding names")
LEVEL_NOTE = ("trusted: Lean kernel + standard axioms; Python int/bytes conversions and bytearray slice assignment are "
              "modelled; typed access composes with the C04 codec model; correspondence strength bounded by the "
              "generator (distribution in the evidence)")
TECHNIQUE = "Lean 4 proof (testBit characterisation of get/set) + differential correspondence with the implementation"
