"""C05 — PDO variables occupy exactly their mapped bits."""
import itertools

import canopen
from canopen import objectdictionary as od
from canopen.pdo.base import PdoBase, PdoMap

from props import c04

ID = "C05"
PROOF_MODULES = ["CanopenProofs.C05"]
GENERATED = ["Datatypes"]
THEOREMS = [
    "Canopen.C05.offsets_disjoint",
    "Canopen.C05.get_is_field",
    "Canopen.C05.read_is_typed_field",
    "Canopen.C05.read_bool_real",
    "Canopen.C05.set_changes_exactly_field",
    "Canopen.C05.write_sets_low_bits",
    "Canopen.C05.get_set",
    "Canopen.C05.neighbour_unchanged",
]
FINGERPRINT = [
    "canopen.pdo.base:PdoVariable.get_data",
    "canopen.pdo.base:PdoVariable.set_data",
    "canopen.pdo.base:PdoVariable.__init__",
    "canopen.pdo.base:PdoMap.add_variable",
    "canopen.pdo.base:PdoMap.clear",
    "canopen.pdo.base:PdoMap.read",
    "canopen.pdo.base:PdoMap._update_data_size",
    "canopen.variable:Variable.raw",
    "canopen.variable:Variable.data",
]
TRUSTED = c04.TRUSTED + [
    "Python int.from_bytes / int.to_bytes / bytearray slice assignment modelled as leVal / leBytes / "
    "take-drop (CanopenModel/Pdo/Bits.lean)"]
ASSUMPTIONS = ["layouts as in the property: objects mapped with their own bit length, BOOLEAN and the "
               "8-bit types also with a sub-byte length; total at most 64 bits"]
RULE = ("ops lay/get/set: every layout of 1..2 objects over all types and sub-byte lengths (quick), "
        "seeded layouts of 3..8 objects; all 2^len values for fields up to 12 bits, boundary values "
        "above; frames 00.., ff.., alternating, seeded; non-trivial = implementation returned a value")

INT = c04.SPEC          # type -> (width, signed)
REALS = {0x08: 32, 0x11: 64}
BOOL = 0x01
ALL_TYPES = sorted(INT) + [BOOL] + sorted(REALS)


def width(t):
    return INT[t][0] if t in INT else (8 if t == BOOL else REALS[t])


_OD = None


def the_od():
    global _OD
    if _OD is None:
        d = od.ObjectDictionary()
        for t in ALL_TYPES:
            v = od.ODVariable(f"v{t}", 0x2000 + t, 0)
            # the entry is (re)typed after its length has been asked for once: len() follows the type in force
            v.data_type = 0x05 if t != 0x05 else 0x07
            len(v)
            v.data_type = t
            d.add_object(v)
        _OD = d
    return _OD


def build_via_read(layout):
    """the same map, but obtained by PdoMap.read(from_od=True) from mapping parameters 0x1600"""
    d = od.ObjectDictionary()
    for t in ALL_TYPES:
        v = od.ODVariable(f"v{t}", 0x2000 + t, 0)
        v.data_type = t
        d.add_object(v)
    com = od.ODRecord("com", 0x1400)
    for sub, t, val in ((0, 0x05, 2), (1, 0x07, 0x201), (2, 0x05, 255)):
        v = od.ODVariable(f"c{sub}", 0x1400, sub)
        v.data_type, v.value = t, val
        com.add_member(v)
    d.add_object(com)
    mp = od.ODRecord("map", 0x1600)
    v = od.ODVariable("m0", 0x1600, 0)
    v.data_type, v.value = 0x05, len(layout)
    mp.add_member(v)
    for i, (t, ln) in enumerate(layout, 1):
        v = od.ODVariable(f"m{i}", 0x1600, i)
        v.data_type, v.value = 0x07, ((0x2000 + t) << 16) | ln
        mp.add_member(v)
    d.add_object(mp)
    node = canopen.RemoteNode(1, d)
    canopen.Network().add_node(node)
    node.rpdo.read(from_od=True)
    m = node.rpdo[1]
    if len(m.map) != len(layout):
        raise ValueError("mapping entries lost")
    return m, list(m.map)


def build(layout, before=None, via_read=False):
    if via_read:
        return build_via_read(layout)
    node = canopen.RemoteNode(1, the_od())
    m = PdoMap(PdoBase(node), None, None)
    if before is not None:
        # history: the map held other variables and was cleared (`old|new`)
        for t, ln in before:
            m.add_variable(0x2000 + t, 0, ln)
        m.clear()
    vars_ = []
    for t, ln in layout:
        # an object mapped with its full length is mapped without naming the length (the entry's own size)
        vars_.append(m.add_variable(0x2000 + t, 0, None if ln == width(t) else ln))
    return m, vars_


def parse_layout(s):
    """the layout in force; `old|new` = `new` mapped after a map holding `old` was cleared"""
    s = s.split("|")[-1]
    if s.startswith("rd~"):
        s = s[3:]
    return [tuple(int(x) for x in e.split(":")) for e in s.split(",")]


def parse_before(s):
    return parse_layout(s.split("|")[0]) if "|" in s else None


def run_impl(op):
    a = op.split(" ")
    layout = parse_layout(a[1])
    try:
        m, vs = build(layout, parse_before(a[1]), via_read=a[1].startswith("rd~"))
    except Exception:
        return "err"
    if a[0] == "lay":
        return "ok " + c04.nl([v.offset for v in vs]) + f" {len(m.data)}"
    m.data = bytearray(c04.unhx(a[2]))
    i = int(a[3])
    t = layout[i][0]
    try:
        if a[0] == "get":
            return "ok " + c04.show_val(vs[i].raw, str(t))
        if a[0] == "set":
            if a[4] == "int":
                vs[i].raw = int(a[5])
            elif a[4] == "bool":
                vs[i].raw = a[5] == "1"
            else:
                eb, mb = (8, 23) if t == 0x08 else (11, 52)
                vs[i].raw = c04.bits_to_float(int(a[5]), eb, mb)
            return "ok " + c04.hx(bytes(m.data))
    except Exception:
        return "err"
    return "bad-op"


def canon_model(op, out):
    a = op.split(" ")
    if a[0] == "get" and out.startswith("ok real "):
        t = parse_layout(a[1])[int(a[3])][0]
        if c04.is_nan_pattern(t, int(out[8:])):
            return "ok real nan"
    return out


def offsets(layout):
    o, acc = [], 0
    for _, ln in layout:
        o.append(acc)
        acc += ln
    return o, acc


def oracle(op, out):
    a = op.split(" ")
    layout = parse_layout(a[1])
    offs, total = offsets(layout)
    size = (total + 7) // 8
    if a[0] == "lay":
        exp = "ok " + c04.nl(offs) + f" {size}"
        return None if out == exp else f"layout gave {out}, expected {exp}"
    frame = c04.unhx(a[2])
    i = int(a[3])
    t, ln = layout[i]
    off = offs[i]
    x = int.from_bytes(frame, "little")
    mask = (1 << ln) - 1
    f = (x >> off) & mask
    if len(frame) != size:
        return None
    if a[0] == "get":
        if t in INT:
            v = f - (1 << ln) if INT[t][1] and f >> (ln - 1) else f
            exp = f"ok int {v}"
        elif t == BOOL:
            exp = f"ok bool {int(f != 0)}"
        else:
            exp = "ok real nan" if c04.is_nan_pattern(t, f) else f"ok real {f}"
        return None if out == exp else f"read of bits [{off},{off + ln}) gave {out}, field holds {exp}"
    if a[0] == "set":
        if a[4] == "int":
            v = int(a[5])
            if t in INT:
                w, s = INT[t]
                lo, hi = (-(1 << (w - 1)), (1 << (w - 1)) - 1) if s else (0, (1 << w) - 1)
                if not lo <= v <= hi:
                    return None if out == "err" else f"out-of-range write accepted: {out}"
            elif t == BOOL:
                v = 1 if v else 0
            else:
                return None
        elif a[4] == "bool":
            v = int(a[5])
        else:
            v = int(a[5])
        nx = (x & ~(mask << off)) | ((v & mask) << off)
        exp = "ok " + c04.hx(nx.to_bytes(size, "little"))
        return None if out == exp else (f"write of {v} into bits [{off},{off + ln}) gave {out}, "
                                        f"exactly-the-field update is {exp}")
    return None


def signature(op, what):
    a = op.split(" ")
    layout = parse_layout(a[1])
    offs, _ = offsets(layout)
    if a[0] == "lay":
        return "lay"
    i = int(a[3])
    t, ln = layout[i]
    aligned = offs[i] % 8 == 0 and ln % 8 == 0
    return f"{a[0]}:{'aligned' if aligned else 'bits'}:{'signed' if t in INT and INT[t][1] else 'other'}"


def nontrivial(op, out):
    return out.startswith("ok")


def classify(op, out):
    a = op.split(" ")
    if a[0] == "lay":
        return "lay"
    layout = parse_layout(a[1])
    offs, _ = offsets(layout)
    i = int(a[3])
    aligned = offs[i] % 8 == 0 and layout[i][1] % 8 == 0
    return f"{a[0]}:{'aligned' if aligned else 'bits'}:{'ok' if out.startswith('ok') else 'err'}"


def shrink_candidates(op):
    a = op.split(" ")
    if a[0] in ("get", "set"):
        layout = parse_layout(a[1])
        i = int(a[3])
        frame = c04.unhx(a[2])
        # drop a later entry / zero the frame
        if len(layout) > i + 1:
            nl_ = layout[:-1]
            size = (sum(l for _, l in nl_) + 7) // 8
            yield " ".join([a[0], ",".join(f"{t}:{l}" for t, l in nl_), c04.hx(frame[:size]), a[3]] + a[4:])
        z = bytes(len(frame))
        if frame != z:
            yield " ".join([a[0], a[1], c04.hx(z)] + a[3:])


def lens_for(t):
    w = width(t)
    if w == 8:
        return [1] if t == BOOL else list(range(1, 9))
    return [w]


def frames_for(size, rng, n):
    out = [bytes(size), b"\xff" * size, bytes((0xAA if k % 2 else 0x55) for k in range(size))]
    for _ in range(n):
        out.append(bytes(rng.getrandbits(8) for _ in range(size)))
    return out


def values_for(t, ln, rng, tier):
    if t in INT:
        w, s = INT[t]
        lo, hi = (-(1 << (w - 1)), (1 << (w - 1)) - 1) if s else (0, (1 << w) - 1)
        vals = {lo, hi, 0, 1, hi - 1, lo + 1, hi + 1, lo - 1}
        if s:
            vals |= {-1, -(1 << (ln - 1)), (1 << (ln - 1)) - 1}
        vals |= {(1 << ln) - 1, 1 << (ln - 1), min(hi, 1 << ln), min(hi, (1 << ln) + 1)}
        if ln <= (12 if tier == "thorough" else 6):
            flo = -(1 << (ln - 1)) if s else 0
            vals |= set(range(flo, flo + (1 << ln)))
        for _ in range(3):
            vals.add(rng.randint(lo, hi))
        return [("int", v) for v in sorted(vals)]
    if t == BOOL:
        return [("bool", 0), ("bool", 1)]
    w = REALS[t]
    return [("real", p) for p in (0, 1, 0x3F800000 if w == 32 else 0x3FF0000000000000,
                                  (1 << (w - 1)), rng.getrandbits(w - 2))]


def gen_ops(tier, rng):
    singles = [(t, ln) for t in ALL_TYPES for ln in lens_for(t)]
    layouts = [[e] for e in singles]
    # every pair: the second object lands at every offset the first produces
    for a_, b_ in itertools.product(singles, singles):
        if a_[1] + b_[1] <= 64:
            layouts.append([a_, b_])
    if tier == "quick":
        pairs = layouts[len(singles):]
        rng.shuffle(pairs)
        layouts = layouts[:len(singles)] + pairs[:400]
    # seeded longer layouts, biased to sub-byte prefixes so that wide objects land unaligned
    for _ in range(300 if tier == "quick" else 4000):
        lay, total = [], 0
        for _ in range(rng.randint(3, 8)):
            t, ln = rng.choice(singles) if rng.random() < 0.6 else rng.choice([e for e in singles if e[1] < 8])
            if total + ln > 64:
                continue
            lay.append((t, ln))
            total += ln
        if lay:
            layouts.append(lay)
    nfr = 1 if tier == "quick" else 3
    for lay in layouts:
        ls = ",".join(f"{t}:{l}" for t, l in lay)
        r = rng.random()
        if r < 0.12:
            old = rng.choice(layouts)
            ls = ",".join(f"{t}:{l}" for t, l in old) + "|" + ls
        elif r < 0.3 or any(l == 64 for _, l in lay):
            ls = "rd~" + ls           # the map comes from the mapping parameters (PdoMap.read)
        yield f"lay {ls}"
        size = (sum(l for _, l in lay) + 7) // 8
        idxs = range(len(lay)) if len(lay) <= 2 else [rng.randrange(len(lay)) for _ in range(2)]
        for i in idxs:
            t, ln = lay[i]
            for fr in frames_for(size, rng, nfr):
                yield f"get {ls} {c04.hx(fr)} {i}"
            vals = values_for(t, ln, rng, tier)
            if len(lay) > 1 and len(vals) > 12:
                vals = rng.sample(vals, 12)
            for k, v in vals:
                fr = rng.choice(frames_for(size, rng, 1))
                yield f"set {ls} {c04.hx(fr)} {i} {k} {v}"


CORPUS = [
    "lay rd~27:64",                     # a 64-bit object mapped with its full length, map read from 0x1600
    "get rd~5:8,2:4,2:4 00f0 2",
    "lay 5:8,5:8,5:8|2:4,2:4,2:4",      # a map that is cleared and filled again starts at bit 0 again
    "get 1:1,6:16 000001 1",            # F2: UNSIGNED16 at bit offset 1 spills out of its byte window
    "set 1:1,6:16 000000 1 int 65535",
    "get 2:4 08 0",                     # F2: most negative 4-bit value
    "set 2:4,2:4 50 0 int -1",          # F2: negative write clobbered the neighbour
    "set 5:4,5:4 00 1 int 31",
    "get 1:1,8:32 0000000001 1",        # REAL32 at a bit offset
]

LEVEL_TEXT = ("Lean 4 theorems for every frame, every bit offset and length and every value: a read returns exactly "
              "the bit field (sign-extended for signed types), a write changes exactly those bits to the value's low "
              "bits and leaves every other bit and the frame length unchanged, hence read-after-write and neighbour "
              "isolation; offsets of add_variable are disjoint prefix sums; tied to the code by a differential run "
              "over all 1- and 2-object layouts and seeded layouts of up to 8 objects")
LEVEL_NOTE = ("trusted: Lean kernel + standard axioms; Python int/bytes conversions and bytearray slice assignment are "
              "modelled; typed access composes with the C04 codec model; correspondence strength bounded by the "
              "generator (distribution in the evidence)")
TECHNIQUE = "Lean 4 proof (testBit characterisation of get/set) + differential correspondence with the implementation"
