"""C14 — exporting a dictionary to EDS/DCF and importing it again loses nothing."""
import contextlib
import io
import json
import os
import re
import tempfile

import canopen
from canopen import objectdictionary as odm

from props import eds_common as E

ID = "C14"
PROOF_MODULES = ["CanopenProofs.C14"]
GENERATED = ["Datatypes", "EdsTables"]
THEOREMS = [
    "Canopen.C14.lists_partition",
    "Canopen.C14.lists_cover",
    "Canopen.C14.revert_convert",
    "Canopen.C14.export_variable_import",
    "Canopen.C14.export_object_import",
    "Canopen.C14.export_objects_import",
    "Canopen.C14.export_commissioning_import",
    "Canopen.C14.export_comments_import",
    "Canopen.C14.export_comments_import_wf",
    "Canopen.C14.export_devinfo_import",
    "Canopen.C14.export_import_objects",
    "Canopen.C14.export_import_partial",
    "Canopen.C14.export_returns",
    "Canopen.C14.export_import",
    "Canopen.C14.export_import_history",
    "Canopen.C14.export_import_nodeid",
]
FINGERPRINT = [
    "canopen.objectdictionary.eds:export_eds",
    "canopen.objectdictionary.eds:export_dcf",
    "canopen.objectdictionary.eds:_revert_variable",
    "canopen.objectdictionary:export_od",
    "canopen.objectdictionary.eds:import_eds",
    "canopen.objectdictionary.eds:build_variable",
    "canopen.objectdictionary.eds:_convert_variable",
    "canopen.objectdictionary.eds:_signed_int_from_hex",
    "canopen.objectdictionary.eds:_calc_bit_length",
    "canopen.objectdictionary:ObjectDictionary.__getitem__",
    "canopen.objectdictionary:ObjectDictionary.__contains__",
    "canopen.objectdictionary:ObjectDictionary.__iter__",
    "canopen.objectdictionary:ODRecord.__getitem__",
    "canopen.objectdictionary:ODArray.__getitem__",
]
TRUSTED = [
    "configparser.RawConfigParser writing and re-reading the text (identity on documents whose strings have no "
    "leading/trailing blanks, line breaks or ';'): the exported text is parsed by the harness and compared, as a "
    "document, with the model's export",
    "float printing/parsing (str(float), float(text)) is opaque: a real value is carried as a text denoting it",
    "the [FileInfo] section (time stamps, and the mutable default argument file_info={} that leaks the first "
    "export's entries into later ones) is not compared",
    "the importer model of C08 and its trusted base",
]
ASSUMPTIONS = [
    "dictionaries in the property's domain: indexes 0x1000..0xFFFF, unique names, value kinds agreeing with the "
    "data type, limits on integer types only, bit rate a multiple of 1000, node id 1..127 (0, 128, 255 are "
    "generated and compared with the model, nothing is demanded of them), texts without "
    "leading/trailing blanks, ';' or line breaks, factor not equal to 1.0 when given (float equality is outside "
    "the model)",
    "the same node id is in force for the re-import as for the original dictionary",
]
RULE = ("ops: hist <k> {<eds|dcf> <f|s|o> <file stem> <node id> <dictionary>}*k (several export/import rounds within "
        "one process: `f` rounds export to <stem>.<eds|dcf> - the same names again and again with other "
        "dictionaries - and import that path, `s`/`o` rounds go through a text stream / standard output), "
        "rt <eds|dcf> <destination f|s|o> <node id> <dictionary as a sequence of API calls> (ODVariable/"
        "ODRecord/ODArray built in code: all data types, signed/unsigned defaults and limits at the range ends, "
        "relative flag, records/arrays of 1..20 members, names with blanks, '%', '=', device info, comment "
        "blocks of 1..30 lines), "
        "rti … (a dictionary obtained by importing a text of C08's writer, then exported), rev <type> <value> "
        "(_revert_variable then _convert_variable); every rt/rti exports to a file name, a text stream and "
        "stdout and compares the three texts; non-trivial = export and re-import both returned")


# ---- dictionaries as sequences of API calls ---------------------------------------------------------
def enc_val(v):
    if v is None:
        return "~"
    k, x = v
    if k == "i":
        return f"i{x}"
    if k == "b":
        return "b" + (x if x else "-")
    return k + E.hx(x)          # 's' text, 'r' float text


def enc_optstr(s):
    return "~" if s is None else "=" + E.hx(s)


def enc_var(v):
    return ",".join([E.hx(v["name"]), str(v["index"]), str(v["sub"]), str(v["dt"]), E.hx(v.get("acc", "rw")),
                     "1" if v.get("pdo") else "0", enc_val(v.get("def")), enc_val(v.get("val")),
                     "~" if v.get("min") is None else str(v["min"]),
                     "~" if v.get("max") is None else str(v["max"]),
                     "1" if v.get("rel") else "0", enc_optstr(v.get("draw")), enc_optstr(v.get("vraw")),
                     enc_optstr(v.get("stor")), enc_optstr(v.get("fac")), E.hx(v.get("desc", "")),
                     E.hx(v.get("unit", ""))])


def enc_od(spec):
    items = []
    if spec.get("nodeid") is not None:
        items.append(f"n,{spec['nodeid']}")
    if spec.get("bitrate") is not None:
        items.append(f"b,{spec['bitrate']}")
    if spec.get("comments"):
        items.append("c," + E.hx(spec["comments"]))
    for r in spec.get("bauds", []):
        items.append(f"u,{r}")
    for attr, kind, val in spec.get("dev", []):
        items.append(f"d,{E.hx(attr)},{kind},{E.hx(val) if kind == 's' else val if kind == 'i' else '0'}")
    for o in spec["objs"]:
        if o["kind"] == "var":
            items.append("V," + enc_var(o["var"]))
        else:
            items.append(("R," if o["kind"] == "rec" else "A,") + ",".join(
                [E.hx(o["name"]), str(o["index"]), enc_optstr(o.get("stor"))]))
            for m in o["members"]:
                items.append("M," + enc_var(m))
    return ";".join(items) if items else "-"


def dec_val(s):
    if s == "~":
        return None
    k, r = s[0], s[1:]
    if k == "i":
        return int(r)
    if k == "b":
        return b"" if r == "-" else bytes.fromhex(r)
    if k == "s":
        return E.unhx(r)
    if k == "r":
        return float(E.unhx(r))
    raise ValueError(s)


def dec_optstr(s):
    return None if s == "~" else E.unhx(s[1:])


def make_var(f):
    v = odm.ODVariable(E.unhx(f[0]), int(f[1]), int(f[2]))
    v.data_type = int(f[3])
    v.access_type = E.unhx(f[4])
    v.pdo_mappable = f[5] == "1"
    v.default = dec_val(f[6])
    v.value = dec_val(f[7])
    v.min = None if f[8] == "~" else int(f[8])
    v.max = None if f[9] == "~" else int(f[9])
    v.relative = f[10] == "1"
    if f[11] != "~":
        v.default_raw = dec_optstr(f[11])
    if f[12] != "~":
        v.value_raw = dec_optstr(f[12])
    v.storage_location = dec_optstr(f[13])
    if f[14] != "~":
        v.factor = float(dec_optstr(f[14]))
    v.description = E.unhx(f[15])
    v.unit = E.unhx(f[16])
    return v


def build_od(enc):
    """the dictionary, through the public classes"""
    od = canopen.ObjectDictionary()
    pending = None
    if enc == "-":
        return od
    for item in enc.split(";"):
        f = item.split(",")
        if f[0] in ("V", "R", "A") and pending is not None:
            od.add_object(pending)
            pending = None
        if f[0] == "V":
            od.add_object(make_var(f[1:]))
        elif f[0] in ("R", "A"):
            pending = (odm.ODRecord if f[0] == "R" else odm.ODArray)(E.unhx(f[1]), int(f[2]))
            pending.storage_location = dec_optstr(f[3])
        elif f[0] == "M":
            pending.add_member(make_var(f[1:]))
        elif f[0] == "n":
            od.node_id = int(f[1])
        elif f[0] == "b":
            od.bitrate = int(f[1])
        elif f[0] == "c":
            od.comments = E.unhx(f[1])
        elif f[0] == "u":
            od.device_information.allowed_baudrates.add(int(f[1]))
        elif f[0] == "d":
            val = E.unhx(f[3]) if f[2] == "s" else int(f[3]) if f[2] == "i" else (f[2] == "t")
            setattr(od.device_information, E.unhx(f[1]), val)
        else:
            raise ValueError(item)
    if pending is not None:
        od.add_object(pending)
    return od


# ---- exported documents -----------------------------------------------------------------------------------
FLOAT_TYPES = (8, 0x11)


def canon_doc(doc):
    """drop [FileInfo]; BaudRate_* lines as a sorted block; float texts as the float they denote"""
    out = []
    for name, opts in doc:
        if name == "FileInfo":
            continue
        opts = list(opts)
        if name == "DeviceInfo":
            bauds = sorted(o for o in opts if o[0].startswith("BaudRate_"))
            opts = [o for o in opts if not o[0].startswith("BaudRate_")] + bauds
        dt = None
        for k, v in opts:
            if k == "DataType":
                try:
                    dt = int(v, 0)
                except ValueError:
                    pass
        new = []
        for k, v in opts:
            if k == "Factor" or (k in ("DefaultValue", "ParameterValue") and dt in FLOAT_TYPES):
                try:
                    v = "float:" + E.canon_float(float(v))
                except ValueError:
                    pass
            new.append((k, v))
        out.append((name, new))
    return out


def strip_fileinfo(text):
    out, skip = [], False
    for line in text.split("\n"):
        if line.startswith("["):
            skip = line.strip() == "[FileInfo]"
        if not skip:
            out.append(line)
    return "\n".join(out)


def export_all(od, doctype):
    """the three destinations; returns (text per destination)"""
    texts = {}
    work = os.path.join(os.path.dirname(os.path.dirname(os.path.dirname(os.path.abspath(__file__)))), ".work")
    os.makedirs(work, exist_ok=True)
    with tempfile.TemporaryDirectory(dir=work) as d:
        path = os.path.join(d, "out." + doctype)
        canopen.export_od(od, path)          # doc type from the suffix
        with open(path) as f:
            texts["f"] = f.read()
        # an explicit document type wins over the suffix, and works without a known suffix
        other = os.path.join(d, "other." + ("dcf" if doctype == "eds" else "eds"))
        canopen.export_od(od, other, doc_type=doctype)
        with open(other) as f:
            texts["g"] = f.read()
        plain = os.path.join(d, "plain.txt")
        canopen.export_od(od, plain, doc_type=doctype)
        with open(plain) as f:
            texts["h"] = f.read()
    s = io.StringIO()
    canopen.export_od(od, s, doc_type=doctype)
    texts["s"] = s.getvalue()
    o = io.StringIO()
    with contextlib.redirect_stdout(o):
        canopen.export_od(od, None, doc_type=doctype)
    texts["o"] = o.getvalue()
    return texts


FILEINFO = re.compile(r" F=[^ )]*")


def no_fileinfo(dump):
    """[FileInfo] carries time stamps and leaks between exports: not compared"""
    return FILEINFO.sub(" F=*", dump)


def all_variables(od):
    for obj in od.values():
        if isinstance(obj, odm.ODVariable):
            yield obj
        else:
            for m in obj.values():
                if isinstance(m, odm.ODVariable):
                    yield m


def earlier_export(od):
    """history: the dictionary was exported before, when its defaults and values were different ones; exporting
    has no lasting effect on the dictionary, so the later export shows the later state"""
    saved = []
    for v in all_variables(od):
        saved.append((v, v.default, v.value))
        for attr in ("default", "value"):
            x = getattr(v, attr)
            if isinstance(x, bool):
                setattr(v, attr, not x)
            elif isinstance(x, int):
                setattr(v, attr, 0 if x else 1)
            elif isinstance(x, float):
                setattr(v, attr, x + 1.0)
            elif isinstance(x, str):
                setattr(v, attr, x + "x")
            elif isinstance(x, (bytes, bytearray)):
                setattr(v, attr, bytes(x) + b"\x00")
    try:
        for dt in ("eds", "dcf"):
            try:
                canopen.export_od(od, io.StringIO(), doc_type=dt)
            except Exception:
                pass
    finally:
        for v, d, x in saved:
            v.default, v.value = d, x


def file_node_id(text, doctype):
    """`I=`: the node id of the dictionary obtained by importing an exported DCF without an explicit node id: the
    one the document carries"""
    if doctype != "dcf":
        return "I=-"
    try:
        return "I=" + E.show_opt(str, E.import_text(text, "x.dcf", None).node_id)
    except Exception:
        return "I=err"


def round_trip(od, doctype, dest, nid, history=False):
    # the node id in force for the original dictionary is in force for the re-import
    if nid is None:
        nid = od.node_id
    if history:
        earlier_export(od)
    head = "O=(" + no_fileinfo(E.show_od(od)) + ")"
    try:
        texts = export_all(od, doctype)
    except Exception:
        return "ok X=1 I=- " + head + " export-err"
    same = len({strip_fileinfo(t) for t in texts.values()}) == 1
    text = texts[dest]
    try:
        doc = E.enc_doc(canon_doc(E.parse_text(text)))
    except Exception:
        doc = "unparsable"
    try:
        od2 = E.import_text(text, "x." + doctype, nid)
        r = no_fileinfo(E.show_od(od2))
    except Exception:
        r = "err"
    return f"ok X={1 if same else 0} {file_node_id(text, doctype)} {head} D={doc} R=({r})"


def hist_steps(a):
    k = int(a[1])
    if k < 1 or len(a) != 2 + 5 * k:
        return None
    return [a[2 + 5 * i:7 + 5 * i] for i in range(k)]


def run_history(a):
    """hist: several export/import rounds within this process; an `f` round exports to <stem>.<eds|dcf> in a
    directory of this operation's own (the document type comes from the suffix) and imports that path again, an
    `s` round goes through a text stream, an `o` round through standard output"""
    steps = hist_steps(a)
    if steps is None:
        return "bad-op"
    work = os.path.join(os.path.dirname(os.path.dirname(os.path.dirname(os.path.abspath(__file__)))), ".work")
    os.makedirs(work, exist_ok=True)
    outs = []
    with tempfile.TemporaryDirectory(dir=work, prefix="c14h") as d:
        for doctype, dest, stem, nid, enc in steps:
            od = build_od(enc)
            nid = od.node_id if nid == "none" else int(nid)
            head = "O=(" + no_fileinfo(E.show_od(od)) + ")"
            path = os.path.join(d, E.unhx(stem) + "." + doctype)
            if os.path.dirname(path) != d:
                return "HARNESS a history step names a file outside the operation's directory"
            try:
                if dest == "f":
                    canopen.export_od(od, path)
                    with open(path) as f:
                        text = f.read()
                elif dest == "s":
                    buf = io.StringIO()
                    canopen.export_od(od, buf, doc_type=doctype)
                    text = buf.getvalue()
                else:
                    buf = io.StringIO()
                    with contextlib.redirect_stdout(buf):
                        canopen.export_od(od, None, doc_type=doctype)
                    text = buf.getvalue()
            except Exception:
                outs.append("I=- " + head + " export-err")
                continue
            try:
                doc = E.enc_doc(canon_doc(E.parse_text(text)))
            except Exception:
                doc = "unparsable"
            try:
                od2 = canopen.import_od(path, nid) if dest == "f" else E.import_text(text, "x." + doctype, nid)
                r = no_fileinfo(E.show_od(od2))
            except Exception:
                r = "err"
            outs.append(f"{file_node_id(text, doctype)} {head} D={doc} R=({r})")
    return "ok " + " # ".join(outs)


def run_impl(op):
    a = op.split(" ")
    if a[0] == "hist":
        return run_history(a)
    if a[0] == "rt":
        nid = None if a[3] == "none" else int(a[3])
        return round_trip(build_od(a[4]), a[1], a[2], nid, history=True)
    if a[0] == "rti":
        nid = None if a[3] == "none" else int(a[3])
        text = E.write_eds(json.loads(E.unhx(a[7]))) if a[6] == "w" else E.unhx(a[7])
        if E.enc_doc(E.parse_text(text)) != a[5]:
            return "HARNESS document in the op is not the parse of its text"
        try:
            od = E.import_text(text, E.unhx(a[4]), nid)
        except Exception:
            return "import-err"
        return round_trip(od, a[1], a[2], nid)
    if a[0] == "rev":
        from canopen.objectdictionary import eds
        v = odm.ODVariable("v", 0x2000, 0)
        v.data_type = int(a[1])
        v.default = dec_val(a[2])
        od = canopen.ObjectDictionary()
        od.add_object(v)
        s = io.StringIO()
        try:
            canopen.export_od(od, s, doc_type="eds")
            doc = dict(E.parse_text(s.getvalue()))
            txt = dict(doc["2000"])["DefaultValue"]
            od2 = E.import_text(s.getvalue(), "x.eds", None)
        except Exception:
            return "err"
        return f"ok {E.esc(txt)} " + E.show_opt(E.show_value, od2[0x2000].default)
    return "bad-op"


def canon_round(out):
    """one `… O=(…) D=<doc> R=(…)` answer of the model, its document canonicalised like the harness's"""
    i = out.find(") D=") + 1
    if i > 0:
        j = out.find(" R=(", i)
        try:
            doc = E.enc_doc(canon_doc(E.dec_doc(out[i + 3:j])))
            out = out[:i + 3] + doc + out[j:]
        except Exception:
            pass
    return out


def canon_model(op, out):
    out = no_fileinfo(E.canon_model_floats(out))
    if op.startswith("hist ") and out.startswith("ok "):
        return "ok " + " # ".join(canon_round(x) for x in out[3:].split(" # "))
    return canon_round(out)


# ---- oracle: the property on the implementation's answer -------------------------------------------------------
CMP_FIELDS = ["name", "index", "sub", "dt", "acc", "pdo", "def", "min", "max", "stor", "fac", "desc", "unit"]


def split_out(out):
    """'ok X=b O=(…) D=… R=(…)' → (X, O, D, R) (D, R None when the export failed)"""
    x = out[5]
    i = out.index(" O=(") + 4
    if out.endswith(" export-err"):
        return x, out[i:-len(") export-err")], None, None
    j = out.index(") D=", i)
    k = out.index(" R=(", j)
    return x, out[i:j], out[j + 4:k], out[k + 4:-1]


def norm_dev(d):
    return d.replace(":t", ":i1").replace(":f", ":i0")


def same_node_id(tok, enc):
    """the node id in force for the re-import is the dictionary's (ASSUMPTIONS): the token names it or is `none`"""
    own = [it[2:] for it in enc.split(";") if it.startswith("n,")]
    return tok == "none" or (own and own[-1] == tok)


def oracle(op, out):
    a = op.split(" ")
    if a[0] == "rev":
        t = int(a[1])
        if a[2].startswith("i") and (t in E.SIGNED or t in E.UNSIGNED):
            v = int(a[2][1:])
            if not out.endswith(f" i{v}"):
                return f"default {v} of an integer type is exported/re-imported as {out!r}"
        return None
    if a[0] == "hist":
        steps = hist_steps(a)
        if steps is None or not out.startswith("ok "):
            return None if out == "bad-op" else f"history: {out}"
        outs = out[3:].split(" # ")
        if len(outs) != len(steps):
            return f"history of {len(steps)} rounds gave {len(outs)} answers"
        for i, (st, o) in enumerate(zip(steps, outs)):
            if not same_node_id(st[3], st[4]):
                continue
            _, od_dump, d, r = split_out("ok X=1 " + o)
            w = compare_round(od_dump, d, r, st[0] == "dcf", file_nid("ok X=1 " + o))
            if w:
                earlier = [j + 1 for j in range(i) if steps[j][1] == "f" and steps[j][:3:2] == st[:3:2]]
                dest = {"f": f"file {E.unhx(st[2])}.{st[0]}", "s": "text stream", "o": "standard output"}[st[1]]
                return (f"history round {i + 1} of {len(steps)} ({dest}"
                        + (f", written before in round {earlier}" if earlier and st[1] == "f" else "") + f"): {w}")
        return None
    if a[0] not in ("rt", "rti") or not out.startswith("ok X="):
        return None
    if a[0] == "rt" and not same_node_id(a[3], a[4]):
        return None
    dcf = a[1] == "dcf"
    x, o, d, r = split_out(out)
    if x != "1":
        return "the exported document depends on the destination (file name / stream / stdout)"
    return compare_round(o, d, r, dcf, file_nid(out))


FILE_NID = re.compile(r"^ok X=. I=(\S+) O=\(")


def file_nid(out):
    m = FILE_NID.match(out)
    return m.group(1) if m else None


def compare_round(o, d, r, dcf, inid=None):
    """one export/import round: the dump of the exported dictionary, the document, the dump of the re-imported one"""
    if d is None:
        return "export raised an exception"
    if r == "err":
        return "the exported document cannot be imported"
    try:
        od, od2 = E.parse_dump(o), E.parse_dump(r)
    except ValueError as e:
        return f"unparsable dump: {e}"
    if od["C"] != od2["C"]:
        return f"comments {od['C']!r} became {od2['C']!r}"
    if od["U"] != od2["U"]:
        return f"allowed bit rates {od['U']} became {od2['U']}"
    if norm_dev(od["D"]) != norm_dev(od2["D"]):
        da, db = dict(x.split(":") for x in od["D"].split(",") if ":" in x), \
            dict(x.split(":") for x in od2["D"].split(",") if ":" in x)
        for k in da:
            if norm_dev(":" + da[k]) != norm_dev(":" + db.get(k, "?")):
                return f"device information: {E.unesc(k)} {da[k]} became {db.get(k)}"
        return f"device information {od['D']} became {od2['D']}"
    if dcf:
        # judged for "no node id" and for every valid node id 1..127; 0 (falsy: not written) and ids beyond 127 are
        # outside the property's domain (generated, compared with the model only)
        valid = od["N"] != "~" and 1 <= int(od["N"]) <= 127
        if (valid or od["N"] == "~") and od["N"] != od2["N"]:
            return f"node id {od['N']} became {od2['N']}"
        # the document itself carries every valid node id: importing it without naming one gives it back
        if valid and inid is not None and inid != od["N"]:
            return (f"node id {od['N']} became {'~' if inid == '~' else inid} (DCF imported without an explicit "
                    f"node id)")
        if od["B"] != od2["B"]:
            return f"bit rate {od['B']} became {od2['B']}"
    fields = CMP_FIELDS + (["val"] if dcf else [])

    def key(obj):
        return int(obj["var"]["index"] if obj["kind"] == "V" else obj["index"])
    ga, gb = {key(x): x for x in od["objs"]}, {key(x): x for x in od2["objs"]}
    if sorted(ga) != sorted(gb):
        return (f"objects {[hex(i) for i in sorted(set(ga) - set(gb))]} lost, "
                f"{[hex(i) for i in sorted(set(gb) - set(ga))]} appeared")
    for idx in sorted(ga):
        p, q = ga[idx], gb[idx]
        w = f"object 0x{idx:04X}"
        if p["kind"] != q["kind"]:
            return f"{w}: kind {p['kind']} became {q['kind']}"
        pairs = []
        if p["kind"] == "V":
            pairs.append((w, p["var"], q["var"]))
        else:
            if p["name"] != q["name"] or p["stor"] != q["stor"]:
                return f"{w}: name/storage location changed"
            sa, sb = [s["sub"] for s in p["subs"]], [s["sub"] for s in q["subs"]]
            if sa != sb:
                return f"{w}: sub-indices {sa} became {sb}"
            pairs += [(f"{w} sub {s['sub']}", s, t) for s, t in zip(p["subs"], q["subs"])]
        for where, va, vb in pairs:
            for f in fields:
                if va[f] != vb[f]:
                    return f"{where}: {f} {va[f]!r} became {vb[f]!r}"
    return None


def signature(op, what):
    a = op.split(" ")
    for key, cls in (("destination", "destination"), ("export raised", "export-error"),
                     ("cannot be imported", "reimport-error"), ("comments", "comments"),
                     ("allowed bit rates", "bauds"), ("device information: granularity", "devinfo-granularity"),
                     ("device information", "devinfo"), ("node id", "nodeid"), ("bit rate", "bitrate"),
                     ("objects", "objects"), ("kind", "kind"), ("name/storage", "coll"),
                     ("sub-indices", "subindices"), (": def ", "default"), (": min ", "limit"),
                     (": max ", "limit"), (": val ", "value"), ("exported/re-imported", "default")):
        if key in what:
            return f"{a[0] if a[0] in ('rev', 'hist') else 'rt'}:{cls}"
    return "hist:field" if a[0] == "hist" else "rt:field"


def nontrivial(op, out):
    return out.startswith("ok") and "export-err" not in out and "R=(err)" not in out


def classify(op, out):
    a = op.split(" ")
    if a[0] in ("rt", "rti"):
        st = "ok" if nontrivial(op, out) else ("import-err" if out == "import-err" else "fail")
        return f"{a[0]}:{a[1]}:{a[2]}:{st}"
    if a[0] == "hist":
        dests = "".join(a[3 + 5 * i] for i in range(int(a[1]))) if a[1].isdigit() and len(a) == 2 + 5 * int(a[1]) else "?"
        return f"hist:{dests}:{'ok' if nontrivial(op, out) else 'fail'}"
    return f"{a[0]}:{'ok' if out.startswith('ok') else 'err'}"


# ---- shrinking ---------------------------------------------------------------------------------------------
def shrink_candidates(op):
    a = op.split(" ")
    if a[0] == "hist":
        steps = hist_steps(a)
        if steps is None:
            return
        k = len(steps)
        for i in range(k):                       # drop a round
            if k > 1:
                rest = steps[:i] + steps[i + 1:]
                yield " ".join(["hist", str(k - 1)] + [t for st in rest for t in st])
        for i, st in enumerate(steps):           # a smaller dictionary in one round
            for cand in shrink_candidates(" ".join(["rt", st[0], st[1], st[3], st[4]])):
                c = cand.split(" ")
                new = st[:3] + [c[3], c[4]]
                yield " ".join(["hist", str(k)] + [t for x in steps[:i] + [new] + steps[i + 1:] for t in x])
        return
    if a[0] != "rt" or a[4] == "-":
        return
    items = a[4].split(";")
    # fewer comment lines
    for i, it in enumerate(items):
        if it.startswith("c,"):
            lines = E.unhx(it[2:]).split("\n")
            for keep in (lines[:len(lines) // 2], lines[:-1], lines[1:]):
                if keep and keep[-1]:
                    yield " ".join(a[:4] + [";".join(items[:i] + ["c," + E.hx("\n".join(keep))] + items[i + 1:])])
    # drop one construction command (a record/array start together with its members)
    for i, it in enumerate(items):
        if it[0] in "RA":
            j = i + 1
            while j < len(items) and items[j][0] == "M":
                j += 1
            rest = items[:i] + items[j:]
        elif it[0] == "M":
            rest = items[:i] + items[i + 1:]
        else:
            rest = items[:i] + items[i + 1:]
        # (a dictionary without node id is re-imported without one: the node id in force stays the dictionary's)
        head = a[:3] + ["none"] if it.startswith("n,") else a[:4]
        yield " ".join(head + [";".join(rest) if rest else "-"])
    # blank optional fields of variables
    for i, it in enumerate(items):
        if it[0] in "VM":
            f = it.split(",")
            for k, blank in ((7, "~"), (8, "~"), (9, "~"), (10, "~"), (14, "~"), (15, "~"), (16, "-"), (17, "-")):
                if f[k] != blank:
                    g = list(f)
                    g[k] = blank
                    yield " ".join(a[:4] + [";".join(items[:i] + [",".join(g)] + items[i + 1:])])


# ---- generator -----------------------------------------------------------------------------------------
def rand_value14(rng, dt):
    if dt in E.BLOBS:
        n = rng.choice([0, 1, 2, 8, 13])
        return ("b", bytes(rng.getrandbits(8) for _ in range(n)).hex())
    if dt in E.TEXTS:
        return ("s", E.rand_text(rng, 0, 20))
    if dt in E.REALS:
        x = rng.choice([0.0, 1.5, -2.25, 1e300, -1e-300, float("inf"), 3.141592653589793, rng.uniform(-1e6, 1e6)])
        return ("r", repr(x))
    lo, hi = E.type_range(dt)
    return ("i", E.boundary_int(rng, lo, hi))


def rand_var14(rng, name, index, sub, dt=None):
    dt = rng.choice(E.ALL_TYPES) if dt is None else dt
    v = {"name": name, "index": index, "sub": sub, "dt": dt, "acc": rng.choice(E.ACCESS),
         "pdo": rng.random() < 0.4}
    if rng.random() < 0.75:
        v["def"] = rand_value14(rng, dt)
        if dt in E.UNSIGNED and rng.random() < 0.2:
            v["rel"] = True
    if rng.random() < 0.35:
        v["val"] = rand_value14(rng, dt)
    if dt in E.SIGNED or dt in E.UNSIGNED:
        lo, hi = E.type_range(dt)
        if rng.random() < 0.5:
            v["min"] = E.boundary_int(rng, lo, hi)
        if rng.random() < 0.5:
            v["max"] = E.boundary_int(rng, lo, hi)
    if rng.random() < 0.2:
        v["stor"] = rng.choice(["RAM", "ROM", "PERSIST_COMM"])
    if rng.random() < 0.2:
        v["fac"] = repr(rng.choice([0.1, 10.0, 2.5e-3, -1.0, 1e10]))
    if rng.random() < 0.25:
        v["desc"] = E.rand_text(rng, 1, 30)
    if rng.random() < 0.25:
        v["unit"] = rng.choice(["rpm", "°C", "m/s", "%", "mA", "1/min", "a = b"])
    return v


DEV14 = [("vendor_name", "s"), ("vendor_number", "i"), ("product_name", "s"), ("product_number", "i"),
         ("revision_number", "i"), ("order_code", "s"), ("simple_boot_up_master", "B"),
         ("simple_boot_up_slave", "B"), ("granularity", "g"), ("dynamic_channels_supported", "B"),
         ("group_messaging", "B"), ("nr_of_RXPDO", "i"), ("nr_of_TXPDO", "i"), ("LSS_supported", "B")]


def rand_od14(rng, size=None, types=None):
    size = rng.choice([0, 1, 2, 4, 6, 10]) if size is None else size
    spec = {}
    if rng.random() < 0.6:
        # both ends of the valid range 1..127; rarely what lies outside (0, 128, 255: nothing is claimed there)
        spec["nodeid"] = (rng.choice([1, 2, 126, 127, 127, 16, rng.randint(1, 127)]) if rng.random() < 0.93
                          else rng.choice([0, 128, 255]))
    if rng.random() < 0.6:
        spec["bitrate"] = rng.choice(E.RATES) * 1000
    if rng.random() < 0.6:
        # up to 30 lines (Line10.. sort before Line2 as texts)
        n = rng.choice([1, 2, 3, 5, 9, 10, 11, 12, 20, 30]) if rng.random() < 0.8 else rng.randint(1, 30)
        lines = [E.rand_text(rng, 0, 25) for _ in range(n)]
        lines[-1] = lines[-1] or "last"          # a trailing line break is not a line
        spec["comments"] = "\n".join(lines)
    spec["bauds"] = [r * 1000 for r in E.RATES if rng.random() < 0.4]
    dev = []
    for attr, kind in DEV14:
        if rng.random() < 0.6:
            if kind == "s":
                dev.append([attr, "s", E.rand_text(rng)])
            elif kind == "i":
                dev.append([attr, "i", str(rng.choice([0, 1, 4, 0x1234, 0xFFFFFFFF]))])
            elif kind == "g":
                dev.append([attr, "i", str(rng.choice([0, 1, 8, 64]))])
            else:
                dev.append([attr, rng.choice(["t", "f"]), "0"])
    spec["dev"] = dev
    pool = [0x1000, 0x1001, 0x1018, 0x1002, 0x1003, 0x1017, 0x1400, 0x1A00, 0x1FFF, 0x2000, 0x2001, 0x5FFF,
            0x6000, 0x6040, 0x9FFF, 0xA000, 0xFFFF]
    indexes = set()
    while len(indexes) < size:
        indexes.add(rng.choice(pool) if rng.random() < 0.5 else rng.randint(0x1000, 0xFFFF))
    indexes = sorted(indexes)
    if rng.random() < 0.3:
        rng.shuffle(indexes)
    names = E.rand_names(rng, len(indexes), avoid=[f"Dummy{i:04d}" for i in range(1, 8)])
    objs = []
    for idx, name in zip(indexes, names):
        tchoice = (lambda: rng.choice(types)) if types else (lambda: None)
        r = rng.random()
        if r < 0.5:
            objs.append({"kind": "var", "var": rand_var14(rng, name, idx, 0, tchoice())})
        else:
            kind = rng.choice(["rec", "arr"])
            n = rng.choice([1, 2, 3, 5, 20]) if rng.random() < 0.8 else rng.randint(1, 20)
            subs = list(range(n)) if rng.random() < 0.7 else sorted(rng.sample(range(0, 255), n))
            if rng.random() < 0.1:
                subs = sorted(set(subs[:-1] + [255]))
            mnames = E.rand_names(rng, len(subs), dots=True)
            adt = rng.choice(E.ALL_TYPES)
            o = {"kind": kind, "name": name, "index": idx,
                 "members": [rand_var14(rng, mn, idx, s,
                                        tchoice() or (E.T_U8 if s == 0 else adt if kind == "arr" else None))
                             for s, mn in zip(subs, mnames)]}
            if rng.random() < 0.2:
                o["stor"] = rng.choice(["RAM", "ROM"])
            objs.append(o)
    spec["objs"] = objs
    return spec


def history_op(steps):
    """steps: (doctype, dest, file stem, dictionary description)"""
    toks = []
    for doctype, dest, stem, sp in steps:
        nid = sp.get("nodeid")
        toks += [doctype, dest, E.hx(stem), "none" if nid is None else str(nid), enc_od(sp)]
    return "hist " + " ".join([str(len(steps))] + toks)


def rand_history14(rng):
    """2..4 rounds; the first two are exports of different dictionaries to the same file name"""
    k = rng.choice([2, 2, 3, 4])
    stems = rng.sample(["device", "out", "my node", "a.b"], 2)
    doctype = rng.choice(["eds", "dcf"])
    steps = []
    for i in range(k):
        sp = rand_od14(rng, size=rng.choice([0, 1, 2, 3]))
        if i < 2:
            steps.append((doctype, "f", stems[0], sp))
        else:
            steps.append((rng.choice([doctype, "eds", "dcf"]), rng.choice("ffso"), rng.choice(stems), sp))
    if k > 2 and rng.random() < 0.5:
        steps.insert(1, steps.pop())              # something else between the two exports to the same name
    return history_op(steps)


def fixed_od14(default, value, nodeid, extra, ncomments, bitrate=500000):
    objs = [{"kind": "var", "var": {"name": "Device type", "index": 0x1000, "sub": 0, "dt": E.T_U32, "acc": "ro",
                                    "def": ("i", 0x191)}},
            {"kind": "var", "var": {"name": "Set point", "index": 0x2000, "sub": 0, "dt": E.T_I16, "acc": "rw",
                                    "def": ("i", default), "val": ("i", value)}}]
    if extra:
        objs.append({"kind": "var", "var": {"name": "Added later", "index": 0x2001, "sub": 0, "dt": E.T_U16,
                                            "acc": "ro", "def": ("i", 77), "val": ("i", 78)}})
    return {"nodeid": nodeid, "bitrate": bitrate, "bauds": [], "dev": [], "objs": objs,
            "comments": "\n".join(f"comment line {i + 1} of {ncomments}" for i in range(ncomments))}


def gen_ops(tier, rng):
    quick = tier == "quick"
    # _revert_variable / _convert_variable on integers at the range ends -----------------------------------------
    for dt in sorted(list(E.SIGNED) + list(E.UNSIGNED) + [E.T_BOOLEAN]):
        lo, hi = E.type_range(dt)
        vals = {lo, hi, lo + 1, hi - 1, 0, 1, 15, 16, 255, 256} | ({-1, -5, -16, -255, -256} if lo < 0 else set())
        for _ in range(5 if quick else 200):
            vals.add(rng.randint(lo, hi))
        for v in sorted(x for x in vals if lo <= x <= hi):
            yield f"rev {dt} i{v}"
    for dt in E.BLOBS:
        for n in (0, 1, 2, 9):
            yield f"rev {dt} b{bytes(rng.getrandbits(8) for _ in range(n)).hex() or '-'}"
    for dt in E.TEXTS:
        for _ in range(5):
            yield f"rev {dt} s{E.hx(E.rand_text(rng, 0, 12))}"
    for dt in E.REALS:
        for x in (0.0, -1.5, 1e300, float("inf"), 0.1):
            yield f"rev {dt} r{E.hx(repr(x))}"
    # dictionaries built in code --------------------------------------------------------------------------
    specs = []
    for dt in E.ALL_TYPES:
        for _ in range(2 if quick else 10):
            specs.append(rand_od14(rng, size=rng.choice([1, 2, 3]), types=[dt]))
    for _ in range(450 if quick else 3000):
        specs.append(rand_od14(rng))
    k = 0
    for sp in specs:
        enc = enc_od(sp)
        nid = sp.get("nodeid")
        for doctype in ("eds", "dcf"):
            dest = "fso"[k % 3]
            k += 1
            yield f"rt {doctype} {dest} {'none' if nid is None else nid} {enc}"
    # histories: several rounds within this process, on the same file names and through streams ---------------------
    for _ in range(60 if quick else 500):
        yield rand_history14(rng)
    # dictionaries obtained by import ---------------------------------------------------------------------------
    for _ in range(400 if quick else 2500):
        sp = E.rand_spec(rng)

        def fix(v):
            if v.get("fac") in ("1",):
                v["fac"] = "3"
        for o in sp["objs"]:
            if o["kind"] in ("var", "compact"):
                fix(o["var"])
            else:
                for m in o["members"]:
                    fix(m["var"])
        if sp.get("nid_arg") == 0:
            sp["nid_arg"] = 3
        if sp.get("comments") and sp["comments"]["lines"] and not sp["comments"]["lines"][-1]:
            sp["comments"]["lines"][-1] = "last"     # a trailing empty line is not kept by splitlines()
        parts = E.spec_to_op_parts(sp)
        doctype = rng.choice(["eds", "dcf"])
        dest = "fso"[k % 3]
        k += 1
        yield f"rti {doctype} {dest} {parts[1]} {parts[0]} {parts[2]} {parts[3]} {parts[4]}"


CORPUS = [
    "rev 3 i-5",         # F4: INTEGER16 default -5 was exported as 0x-5
    "rev 21 i-9223372036854775808",
    "rev 2 i-128",
    # comment blocks of 9, 10, 12 and 30 lines
    *[f"rt {dt} {dest} 9 {enc_od(fixed_od14(-5, 100, 9, False, n))}"
      for n, dt, dest in ((9, "eds", "s"), (10, "eds", "f"), (12, "dcf", "o"), (30, "dcf", "f"))],
    # node ids at both ends of the valid range, with and without a bit rate beside them
    *[f"rt dcf {dest} {n} {enc_od(fixed_od14(3, 4, n, False, 1, br))}"
      for n, dest, br in ((1, "s", None), (126, "f", 250000), (127, "o", 250000), (127, "s", None))],
    # a configuration file that is rewritten and re-read; a stream round in between
    history_op([("dcf", "f", "device", fixed_od14(-5, 100, 3, False, 1)),
                ("dcf", "f", "device", fixed_od14(1234, -100, 4, True, 2)),
                ("dcf", "s", "device", fixed_od14(7, 8, 6, False, 11)),
                ("dcf", "f", "device", fixed_od14(0, 0, 5, False, 3))]),
    history_op([("eds", "f", "device", fixed_od14(-5, 100, 3, False, 1)),
                ("dcf", "f", "device", fixed_od14(6, 7, 8, False, 1)),
                ("eds", "f", "device", fixed_od14(1234, -100, 4, True, 12))]),
]

LEVEL_TEXT = ("Lean 4 theorems over the exported document, for every dictionary of the property's domain, both document "
              "types and every node id: the three object lists partition the indexes from 0x1000 on; _convert_variable "
              "after _revert_variable is the identity for every value of every data type (negative integers "
              "included); one variable / one record or array / all objects of the three lists exported by export_eds "
              "are turned back by the section loop of import_eds with every attribute of the property's list (name, "
              "sub-indices, data type, access type, PDO mapping, default, limits of every signed width, storage "
              "location, factor, unit, description; parameter values for DCF) plus the dummy entries; bit rate, node id, "
              "comments, device attributes and allowed bit rates are read back; the export returns (no two sections of "
              "the same name); whole-dictionary export_import; export_import_history (several rounds on the same "
              "file names, other names and streams: every round returns its own dictionary); export_import_nodeid (a "
              "DCF imported without an explicit node id gives the exported node id, 127 included); model tied to the code "
              "by generated tables and a "
              "differential run comparing the exported document and the re-imported dictionary")
LEVEL_NOTE = ("trusted: Lean kernel + propext/Classical.choice/Quot.sound; configparser writing/reading, float printing, the "
              "three destinations and [FileInfo] are outside the model (differential only); the correspondence is only as "
              "strong as its generator")
TECHNIQUE = "Lean 4 proof over generated tables + differential correspondence with the implementation"
