"""C19 — CiA 402 state decoding and commanded transitions follow the drive state machine.

The real `BaseNode402` is driven in-process, without sleeping: `time.monotonic`/`time.sleep` of the
p402 module are replaced by a tick counter, the two state-switch time-outs are set (instance
attributes) to whole numbers of ticks, and the node talks — through a `Network` subclass whose
`send_message` is the only thing overridden — to a Python **reference drive** written from CiA 402
(power state machine, command patterns, fault reset on the rising edge of bit 7, automatic transitions
1, 14 and optionally 12, arbitrary extra status bits).  The drive fires a pending automatic transition
*before* serving the accesses whose running number is listed in the operation's schedule (an access
is: an SDO read of 0x6041, a controlword write by SDO or RPDO, the emission of the periodic TPDO),
or at the latest after `d` consecutive accesses at which a mandatory one was pending.

Two transports: `s` — 0x6040/0x6041/0x6060/0x6061 by (real, expedited) SDO frames; `p` — controlword
and mode in RPDO1 (event driven), statusword and mode display in the periodic TPDO1 (the wait for its
reception is replaced, on the PdoMap instance, by "the drive emits its next TPDO now").

Unreliable link (`mhist`): `Net.link` is set per step - `d` drops every frame (the SDO client, whose
RESPONSE_TIMEOUT is 0 on this node because answers arrive inside `send_message`, raises SdoCommunicationError at
once; the wait for the TPDO returns None), `x` answers the upload of 0x6502 with abort 0x06020000.
"""
import os
import struct

import canopen
from canopen import objectdictionary as od
from canopen.objectdictionary import datatypes as dt
from canopen.profiles import p402

ID = "C19"
PROOF_MODULES = ["CanopenProofs.C19", "CanopenProofs.Lemmas.P402", "CanopenProofs.Lemmas.P402Graph",
                 "CanopenProofs.Lemmas.P402Safe", "CanopenProofs.Lemmas.P402ProgS",
                 "CanopenProofs.Lemmas.P402ProgP", "CanopenProofs.C19Mode", "CanopenProofs.C19Cfg"]
GENERATED = ["P402Tables"]
THEOREMS = [
    "Canopen.C19.decode_exact",
    "Canopen.C19.decode_of_drive",
    "Canopen.C19.never_illegal",
    "Canopen.C19.reaches_target",
    "Canopen.C19.target_entered",
    "Canopen.C19.fault_reset_needs_edge",
    "Canopen.C19.uncommandable_refused",
    "Canopen.C19.commandable_matches_spec",
    "Canopen.C19.op_mode_refused",
    "Canopen.C19.op_mode_code",
    "Canopen.C19.mode_cache_faithful",
    "Canopen.C19.mode_history_reachable",
    "Canopen.C19.mode_history_never_wrong",
    "Canopen.C19.mode_failure_reported",
    "Canopen.C19.cache_unset_while_failing",
    "Canopen.C19.mode_history_outputs",
    "Canopen.C19.cache_after_frame",
    "Canopen.C19.cfg_live",
    "Canopen.C19.statusword_after_frame",
    "Canopen.C19.statusword_after_frames",
    "Canopen.C19.statusword_after_cycle",
    "Canopen.C19.pdo_served_iff",
]
FINGERPRINT = [
    "canopen.profiles.p402:State402",
    "canopen.profiles.p402:OperationMode",
    "canopen.profiles.p402:BaseNode402.state",
    "canopen.profiles.p402:BaseNode402._next_state",
    "canopen.profiles.p402:BaseNode402._change_state",
    "canopen.profiles.p402:BaseNode402._init_tpdo_values",
    "canopen.profiles.p402:BaseNode402._init_rpdo_pointers",
    "canopen.profiles.p402:BaseNode402.statusword",
    "canopen.profiles.p402:BaseNode402.check_statusword",
    "canopen.profiles.p402:BaseNode402.controlword",
    "canopen.profiles.p402:BaseNode402.op_mode",
    "canopen.profiles.p402:BaseNode402.is_op_mode_supported",
    "canopen.profiles.p402:BaseNode402.on_TPDOs_update_callback",
    "canopen.profiles.p402:BaseNode402.setup_402_state_machine",
    "canopen.profiles.p402:BaseNode402.setup_pdos",
    "canopen.pdo.base:PdoMap.read",
    "canopen.pdo.base:PdoMap.clear",
    "canopen.pdo.base:PdoMap.add_variable",
    "canopen.pdo.base:PdoMap.save",
    "canopen.pdo.base:PdoMap.subscribe",
    "canopen.pdo.base:PdoMap.add_callback",
    "canopen.pdo.base:PdoMap.on_message",
]
TRUSTED = [
    "Spec/Drive402.lean and the Python reference drive in harness/props/c19.py: my reading of the CiA 402 "
    "power state machine (statusword patterns, controlword commands, fault reset on the rising edge of "
    "bit 7, automatic transitions 1, 14 and optionally 12; transition 0 is not observable and not modelled; "
    "commanded transitions take effect when the controlword is received)",
    "time: time.monotonic is a tick counter (one tick per call), the two state-switch time-outs and the "
    "mode-switch time-out are whole numbers of ticks; theorems treat every time-out test as an "
    "arbitrary choice (safety) or as not expiring (progress)",
    "SDO client, PDO maps, Network dispatch of the real code carry the four objects unchanged (C01/C05/C10)",
]
ASSUMPTIONS = [
    "targets are the 8 state names of SW_MASK (the quantifier of the property); other strings "
    "(e.g. 'DISABLE VOLTAGE') are neither generated nor modelled",
    "PDO transport: an initial TPDO has been received before the assignment (otherwise the cached 0 "
    "reads as NOT READY TO SWITCH ON); the TPDO is periodic, the RPDO event driven",
    "configuration histories: two TPDOs, four layouts of statusword / mode display; a re-mapping is followed by "
    "setup_pdos(upload=False); RPDO1 is never re-mapped; a drive transmits all its TPDOs in one cycle showing the "
    "same sample (frames showing different values: op `swl`); histories that end with TPDO1 switched off are "
    "judged by the oracle alone (the unchanged tree then waits for TPDO1 for ever: recorded open finding F27, signature cfg:tpdo1-off)",
]
RULE = ("ops `sw n t` (decode statusword n over transport t), `goto start rst target transport auto12 d "
        "extra F S schedule` (one assignment against the reference drive), `hist start rst transport auto12 extra F S "
        "items` (several assignments on one node, item 8 = a fault occurs in between), `mode name mask transport delay M`, "
        "`mhist transport mask steps` (mode steps on one node object: a<i> assignment / q<i> is_op_mode_supported / r0 read, "
        "each with the link u = reachable, d = no response, x = 0x6502 aborted; failures before the first successful "
        "look-up included); the PDO transport token is `p` or `p<history>`, the configuration history of the node "
        "object after its first set-up: a/b = setup_pdos(upload=False/True), m = setup_402_state_machine(), t/r/q = "
        "node.tpdo/rpdo/pdo.read(), y = statusword additionally mapped in TPDO2, x = statusword moved to TPDO2, w = "
        "back to TPDO1 (each re-mapping: maps changed on the node object, save(), setup_pdos(False)), z = TPDO1 "
        "switched off, everything in TPDO2 (recorded finding F27; VERIF_C19_TPDO1_OFF=0 leaves them out); `hist` items 10..15 = a b m t "
        "r q between assignments; `swl n1 n2 k p<history>` = statusword in both TPDOs, the other TPDO shows n1, then "
        "TPDO k shows n2; 37 systematic histories x (decoding of all low-7-bit patterns, all 8x8 pairs, all modes) "
        "plus seeded histories; "
        "all 65536 statuswords; all 8x8 pairs x both transports x both reset-bit values x schedules with <= 2 "
        "firings among the first accesses, extra status bits seeded; all modes x all masks of the ten mode "
        "bits plus seeded 32-bit masks; non-trivial = a state other than UNKNOWN decoded / at least one "
        "controlword reached the drive / a mode was written")

# ------------------------------------------------------------------ CiA 402, written independently
NAMES = ["NOT READY TO SWITCH ON", "SWITCH ON DISABLED", "READY TO SWITCH ON", "SWITCHED ON",
         "OPERATION ENABLED", "FAULT", "FAULT REACTION ACTIVE", "QUICK STOP ACTIVE"]
NRTSO, SOD, RTSO, SO, OE, FAULT, FRA, QSA = range(8)
# statusword patterns of CiA 402 (xxxx xxxx x0xx 0000 etc.): (mask, value)
PATTERN = {NRTSO: (0x4F, 0x00), SOD: (0x4F, 0x40), RTSO: (0x6F, 0x21), SO: (0x6F, 0x23),
           OE: (0x6F, 0x27), QSA: (0x6F, 0x07), FRA: (0x4F, 0x0F), FAULT: (0x4F, 0x08)}
COMMANDABLE = (SOD, RTSO, SO, OE, QSA)
# 0x6502 bit -> 0x6060 code (CiA 402)
MODE_BIT_CODE = {"PROFILED POSITION": (0, 1), "VELOCITY": (1, 2), "PROFILED VELOCITY": (2, 3),
                 "PROFILED TORQUE": (3, 4), "HOMING": (5, 6), "INTERPOLATED POSITION": (6, 7),
                 "CYCLIC SYNCHRONOUS POSITION": (7, 8), "CYCLIC SYNCHRONOUS VELOCITY": (8, 9),
                 "CYCLIC SYNCHRONOUS TORQUE": (9, 10)}
MODES = ["NO MODE"] + list(MODE_BIT_CODE) + ["OPEN LOOP SCALAR MODE", "OPEN LOOP VECTOR MODE", "BOGUS"]
NEVER = 10 ** 9


class Drive:
    """Reference drive (CiA 402 power state machine)."""

    def __init__(self, st, rst, auto12, extra, fire_at, d):
        self.st, self.rst, self.auto12, self.extra = st, bool(rst), bool(auto12), extra & 0xFFFF
        self.fire_at, self.d = set(fire_at), d
        self.n = 0               # accesses served so far
        self.declined = 0        # consecutive accesses at which a mandatory automatic transition was pending
        self.cws = []            # controlwords received
        self.trace = [st]        # power states entered
        self.mode_display = 0
        self.mode_writes = []
        self.mode_reads = 0
        self.mode_delay = 0      # reads of 0x6061 that still show the old mode after a write
        self.pending_mode = None
        self.supported = 0
        self.support_reads = 0   # answered uploads of 0x6502

    # -- power state machine
    def _enter(self, st):
        if st != self.st:
            self.st = st
            self.trace.append(st)

    def access(self):
        """called before every access is served: the adversary's moment"""
        nxt = {NRTSO: SOD, FRA: FAULT}.get(self.st)
        mandatory = nxt is not None
        if nxt is None and self.st == QSA and self.auto12:
            nxt = SOD
        fire = self.n in self.fire_at or (mandatory and self.declined >= self.d)
        self.n += 1
        if nxt is not None and fire:
            self._enter(nxt)
            self.declined = 0
        elif mandatory:
            self.declined += 1
        else:
            self.declined = 0

    def statusword(self):
        mask, val = PATTERN[self.st]
        return (self.extra & ~mask & 0xFFFF) | val

    def controlword(self, cw):
        self.cws.append(cw)
        b = [(cw >> i) & 1 for i in range(8)]
        edge = b[7] and not self.rst
        self.rst = bool(b[7])
        st = self.st
        if st in (NRTSO, FRA):
            return
        if st == FAULT:
            if edge:
                self._enter(SOD)                       # 15
            return
        if b[7]:
            return                                     # fault reset command: nothing else is decoded
        if not b[1]:                                   # disable voltage
            if st in (RTSO, SO, OE, QSA):
                self._enter(SOD)                       # 7, 10, 9, 12
        elif not b[2]:                                 # quick stop
            if st in (RTSO, SO):
                self._enter(SOD)                       # 7, 10
            elif st == OE:
                self._enter(QSA)                       # 11
        elif not b[0]:                                 # shutdown
            if st in (SOD, SO, OE):
                self._enter(RTSO)                      # 2, 6, 8
        elif not b[3]:                                 # switch on / disable operation
            if st == RTSO:
                self._enter(SO)                        # 3
            elif st == OE:
                self._enter(SO)                        # 5
        else:                                          # (switch on +) enable operation
            if st == RTSO:
                self._enter(SO)                        # 3 + 4
                self._enter(OE)
            elif st in (SO, QSA):
                self._enter(OE)                        # 4, 16

    # -- mode of operation
    def write_mode(self, code):
        self.mode_writes.append(code)
        self.pending_mode = [code, self.mode_delay]

    def read_mode_display(self):
        self.mode_reads += 1
        if self.pending_mode is not None:
            if self.pending_mode[1] > 0:
                self.pending_mode[1] -= 1
            else:
                self.mode_display, self.pending_mode = self.pending_mode[0], None
        return self.mode_display


class Clock:
    def __init__(self):
        self.t = 0

    def monotonic(self):
        t = self.t
        self.t += 1
        return t

    def sleep(self, s):
        self.t += 1


def make_od():
    d = od.ObjectDictionary()
    for idx, name, t in ((0x6040, "Controlword", dt.UNSIGNED16), (0x6041, "Statusword", dt.UNSIGNED16),
                         (0x6060, "Modes of operation", dt.INTEGER8),
                         (0x6061, "Modes of operation display", dt.INTEGER8),
                         (0x6502, "Supported drive modes", dt.UNSIGNED32)):
        v = od.ODVariable(name, idx, 0)
        v.data_type = t
        v.access_type = "rw"
        d.add_object(v)
    # PDO communication / mapping parameter records (RPDO1, TPDO1, TPDO2)
    for base, nm in ((0x1400, "RPDO1 com"), (0x1600, "RPDO1 map"), (0x1800, "TPDO1 com"), (0x1A00, "TPDO1 map"),
                     (0x1801, "TPDO2 com"), (0x1A01, "TPDO2 map")):
        rec = od.ODRecord(nm, base)
        for sub in range(0, 3):
            v = od.ODVariable(f"{nm} {sub}", base, sub)
            v.data_type = PDO_PARAM_TYPE(base, sub)
            v.access_type = "rw"
            rec.add_member(v)
        d.add_object(rec)
    return d


def PDO_PARAM_TYPE(base, sub):
    com = base < 0x1600 or 0x1800 <= base < 0x1A00
    return dt.UNSIGNED8 if sub == 0 or com and sub == 2 else dt.UNSIGNED32


SW_IDX, DISP_IDX = 0x6041, 0x6061
# TPDO layouts of the drive (and, after the application re-mapped, of the node object): per TPDO None = switched
# off, else the objects mapped.  L1 is the configuration every PDO-transport node starts with.
LAYOUTS = {"w": ((SW_IDX, DISP_IDX), None),            # L1: statusword + mode display in TPDO1
           "y": ((SW_IDX, DISP_IDX), (SW_IDX,)),       # L2: the statusword in TPDO1 AND in TPDO2
           "x": ((DISP_IDX,), (SW_IDX,)),              # L3: the statusword moved to TPDO2, TPDO1 keeps the mode display
           "z": (None, (SW_IDX, DISP_IDX))}            # L4: both moved to TPDO2, TPDO1 switched off
OBJ_BITS = {0x6040: 16, 0x6041: 16, 0x6060: 8, 0x6061: 8}
CFG_LETTERS = "abmtrq" + "wyxz"
HIST_CFG_ITEMS = {10: "a", 11: "b", 12: "m", 13: "t", 14: "r", 15: "q"}


def split_transport(tr):
    """`p<history>` -> ("p", history); the history is a string over CFG_LETTERS"""
    if tr[:1] == "p" and len(tr) > 1:
        if any(c not in CFG_LETTERS for c in tr[1:]):
            raise ValueError(f"transport {tr!r}")
        return "p", tr[1:]
    return tr, ""


def layout_after(cfg):
    lay = "w"
    for c in cfg:
        if c in LAYOUTS:
            lay = c
    return lay


class Net(canopen.Network):
    """Only `send_message` is overridden (documented extension point): SDO requests and RPDOs reach the
    reference drive synchronously; its answers come back through the public `notify`."""

    def __init__(self, drive, node_id):
        super().__init__()
        self.drive, self.nid = drive, node_id
        self.ts = 0.0
        n = node_id
        # the drive's PDO configuration objects (what an upload reads, what a `save()` writes)
        self.pdocfg = {(0x1400, 0): 2, (0x1400, 1): 0x200 + n, (0x1400, 2): 255,
                       (0x1600, 0): 2, (0x1600, 1): 0x60400010, (0x1600, 2): 0x60600008,
                       (0x1800, 0): 2, (0x1800, 1): 0x180 + n, (0x1800, 2): 1,
                       (0x1A00, 0): 2, (0x1A00, 1): 0x60410010, (0x1A00, 2): 0x60610008,
                       (0x1801, 0): 2, (0x1801, 1): 0x80000280 + n, (0x1801, 2): 1,
                       (0x1A01, 0): 0, (0x1A01, 1): 0, (0x1A01, 2): 0}
        self._tx = None

    def tx_layout(self):
        """[(TPDO number, COB-ID, [(index, bits)])] of the TPDOs the drive transmits, from its configuration objects"""
        if self._tx is None:
            self._tx = []
            for k, (com, mp) in enumerate(((0x1800, 0x1A00), (0x1801, 0x1A01)), 1):
                cob = self.pdocfg[(com, 1)]
                if cob & 0x80000000:
                    continue
                ents = [self.pdocfg[(mp, i)] for i in range(1, self.pdocfg[(mp, 0)] + 1)]
                self._tx.append((k, cob & 0x7FF, [(e >> 16, e & 0xFF) for e in ents]))
        return self._tx

    def transmits(self, k):
        return any(t[0] == k for t in self.tx_layout())

    link = "u"          # "u" every request served; "d" nothing gets through; "x" 0x6502 does not exist

    def send_message(self, can_id, data, remote=False):
        data = bytes(data)
        drv = self.drive
        if self.link == "d":
            return                                                 # frame lost: no answer, nothing received
        if can_id == 0x600 + self.nid:
            cmd, idx, sub = struct.unpack_from("<BHB", data)
            if cmd == 0x80:
                return                                             # the client gave up: nothing to answer
            if cmd == 0x40:                                        # upload initiate
                if idx == 0x6041:
                    drv.access()
                    resp = struct.pack("<BHBHH", 0x4B, idx, sub, drv.statusword(), 0)
                elif idx == 0x6061:
                    resp = struct.pack("<BHBbBH", 0x4F, idx, sub, drv.read_mode_display(), 0, 0)
                elif idx == 0x6502 and self.link == "x":
                    resp = struct.pack("<BHBL", 0x80, idx, sub, 0x06020000)
                elif idx == 0x6502:
                    drv.support_reads += 1
                    resp = struct.pack("<BHBL", 0x43, idx, sub, drv.supported)
                elif (idx, sub) in self.pdocfg:
                    small = PDO_PARAM_TYPE(idx, sub) == dt.UNSIGNED8
                    resp = struct.pack("<BHBL", 0x4F if small else 0x43, idx, sub, self.pdocfg[(idx, sub)])
                elif 0x1400 <= idx < 0x1C00:
                    resp = struct.pack("<BHBL", 0x80, idx, sub, 0x06090011)
                else:
                    resp = struct.pack("<BHBL", 0x80, idx, sub, 0x06020000)
            elif cmd & 0xE0 == 0x20 and cmd & 0x02:                # expedited download
                n = 4 - ((cmd >> 2) & 3) if cmd & 1 else 4
                if (idx, sub) in self.pdocfg:
                    self.pdocfg[(idx, sub)] = int.from_bytes(data[4:4 + n], "little")
                    self._tx = None
                elif idx == 0x6040:
                    drv.access()
                    drv.controlword(int.from_bytes(data[4:4 + n], "little"))
                elif idx == 0x6060:
                    drv.write_mode(int.from_bytes(data[4:4 + n], "little", signed=True))
                resp = struct.pack("<BHBL", 0x60, idx, sub, 0)
            else:
                resp = struct.pack("<BHBL", 0x80, idx, sub, 0x05040001)
            self.notify(0x580 + self.nid, bytearray(resp), self._stamp())
        elif can_id == 0x200 + self.nid:                           # RPDO1: controlword, mode
            cw = int.from_bytes(data[0:2], "little")
            mode = int.from_bytes(data[2:3], "little", signed=True)
            self.rpdo_modes.append(mode)
            if self.rpdo_is_mode:
                drv.write_mode(mode)
            else:
                drv.access()
                drv.controlword(cw)

    rpdo_is_mode = False

    @property
    def rpdo_modes(self):
        return self.__dict__.setdefault("_rpdo_modes", [])

    def _stamp(self):
        self.ts += 1.0
        return self.ts

    def emit_tpdo(self):
        self.drive.access()
        self.push_tpdo()

    def push_tpdo(self, mode_read=False):
        """one transmission cycle of the drive: every TPDO it is configured to transmit, lowest number first, all
        showing the same sample of statusword and mode display"""
        disp = self.drive.read_mode_display() if mode_read else self.drive.mode_display
        sw = self.drive.statusword()
        for k, cob, ents in self.tx_layout():
            self.send_tpdo(cob, ents, sw, disp)

    def send_tpdo(self, cob, ents, sw, disp):
        val = off = 0
        for idx, bits in ents:
            v = sw if idx == SW_IDX else disp if idx == DISP_IDX else 0
            val |= (v & ((1 << bits) - 1)) << off
            off += bits
        self.notify(cob, bytearray(val.to_bytes((off + 7) // 8, "little")), self._stamp())

    def push_one(self, k, sw):
        """TPDO k alone, showing statusword `sw` (the drive's statusword at that moment)"""
        for kk, cob, ents in self.tx_layout():
            if kk == k:
                self.send_tpdo(cob, ents, sw, self.drive.mode_display)


CFG_CALLS = {"a": lambda node: node.setup_pdos(upload=False),
             "b": lambda node: node.setup_pdos(upload=True),
             "m": lambda node: node.setup_402_state_machine(),
             "t": lambda node: node.tpdo.read(),
             "r": lambda node: node.rpdo.read(),
             "q": lambda node: node.pdo.read()}


def apply_cfg(node, net, letter):
    """one step of the configuration history of a node object whose PDO transport is already set up"""
    if letter in CFG_CALLS:
        CFG_CALLS[letter](node)
        return
    # the application re-maps the TPDOs: change the maps on the node object, save them to the drive (SDO),
    # and let the profile look at the PDO configuration again
    for k, idxs in enumerate(LAYOUTS[letter], 1):
        tp = node.tpdo[k]
        tp.clear()
        tp.cob_id, tp.trans_type = (0x180 if k == 1 else 0x280) + net.nid, 1
        tp.enabled = idxs is not None
        for idx in idxs or ():
            tp.add_variable(idx)
        tp.save()
    node.setup_pdos(upload=False)


def make_node(drive, transport, F=8, S=4, M=5):
    nid = 5
    transport, cfg = split_transport(transport)
    net = Net(drive, nid)
    node = p402.BaseNode402(nid, make_od())
    net.add_node(node)
    clock = Clock()
    p402.time = clock            # module attribute: time.monotonic / time.sleep of p402 only
    node.TIMEOUT_SWITCH_STATE_FINAL = F
    node.TIMEOUT_SWITCH_STATE_SINGLE = S
    node.TIMEOUT_SWITCH_OP_MODE = M
    # answers arrive inside send_message; a request that is not answered then never will be: no real waiting
    node.sdo.RESPONSE_TIMEOUT = 0
    if transport == "p":
        rp, tp = node.rpdo[1], node.tpdo[1]
        rp.cob_id, tp.cob_id = 0x200 + nid, 0x180 + nid
        rp.enabled = tp.enabled = True
        rp.trans_type, tp.trans_type = 255, 1          # event-driven RPDO, SYNC-periodic TPDO
        rp.add_variable(0x6040)
        rp.add_variable(0x6060)
        tp.add_variable(0x6041)
        tp.add_variable(0x6061)
        node.setup_pdos(upload=False)
        # "wait for the next TPDO k" = the drive performs its next transmission cycle now (no real waiting);
        # a TPDO the drive does not transmit never comes
        def make_wait(k, _tp):
            def wait(timeout=10):
                if net.link == "d" or not net.transmits(k):
                    return None                        # no TPDO comes: time-out of wait_for_reception
                if net.tpdo_mode_read:
                    net.push_tpdo(mode_read=True)
                else:
                    net.emit_tpdo()
                return _tp.timestamp
            return wait
        for k in (1, 2):
            node.tpdo[k].wait_for_reception = make_wait(k, node.tpdo[k])
        net.tpdo_mode_read = False
        net.push_tpdo()                                # the TPDO received before the assignment
        if cfg:
            node.nmt.state = "PRE-OPERATIONAL"         # setup_pdos(upload=True) insists on it (NMT command: not for the drive)
            for letter in cfg:
                apply_cfg(node, net, letter)
            net.push_tpdo()                            # the periodic TPDOs keep coming
    elif transport == "d":
        # the same objects are mapped in PDOs that are switched off: the profile must not use them (SDO fallback)
        rp, tp = node.rpdo[1], node.tpdo[1]
        rp.cob_id, tp.cob_id = 0x200 + nid, 0x180 + nid
        rp.enabled = tp.enabled = False
        rp.trans_type, tp.trans_type = 255, 1
        rp.add_variable(0x6040)
        rp.add_variable(0x6060)
        tp.add_variable(0x6041)
        tp.add_variable(0x6061)
        node.setup_pdos(upload=False)
        tp.wait_for_reception = lambda timeout=10: None    # a switched-off TPDO never comes: no real waiting for it
    elif transport != "s":
        raise ValueError("transport")
    return node, net, clock


def nl(xs):
    return ",".join(str(x) for x in xs) if xs else "-"


def unnl(s):
    return [] if s == "-" else [int(x) for x in s.split(",")]


# ---- implementation runner ----------------------------------------------------------------------
def run_impl(op):
    import logging
    logging.disable(logging.CRITICAL)
    real_time = p402.time
    try:
        return _run_impl(op)
    finally:
        p402.time = real_time
        logging.disable(logging.NOTSET)


_SW_NODES = {}


def _run_impl(op):
    a = op.split(" ")
    if a[0] == "sw":
        n, tr = int(a[1]), a[2]
        if tr not in _SW_NODES:        # the getter changes nothing: one node per transport serves all
            drv = Drive(NRTSO, 0, 0, 0, [], NEVER)
            _SW_NODES[tr] = (drv,) + make_node(drv, tr)
        drv, node, net, clock = _SW_NODES[tr]
        drv.statusword = lambda n=n: n
        if tr[0] == "p":
            net.push_tpdo()
        s = node.state
        return f"{NAMES.index(s) if s in NAMES else ('U' if s == 'UNKNOWN' else '?' + str(s))}"
    if a[0] == "swl":
        # both TPDOs carry the statusword: the drive sends the other one showing n1, then TPDO k showing n2
        n1, n2, k, tr = int(a[1]), int(a[2]), int(a[3]), a[4]
        key = ("swl", tr)
        if key not in _SW_NODES:
            drv = Drive(NRTSO, 0, 0, 0, [], NEVER)
            _SW_NODES[key] = (drv,) + make_node(drv, tr)
        drv, node, net, clock = _SW_NODES[key]
        if k not in (1, 2) or tr[0] != "p" or layout_after(tr[1:]) != "y":
            return "bad-op"
        net.push_one(3 - k, n1)
        net.push_one(k, n2)
        s = node.state
        return f"{NAMES.index(s) if s in NAMES else ('U' if s == 'UNKNOWN' else '?' + str(s))}"
    if a[0] == "goto":
        start, rst, target, tr, auto12, d, extra, F, S = (int(a[1]), int(a[2]), int(a[3]), a[4], int(a[5]),
                                                          int(a[6]), int(a[7]), int(a[8]), int(a[9]))
        sched = unnl(a[10])
        drv = Drive(start, rst, auto12, extra, sched, d)
        node, net, clock = make_node(drv, tr, F, S)
        drv.n = 0
        try:
            node.state = NAMES[target]
            res = "ok"
        except ValueError as e:
            res = "refused" if "cannot be entered" in str(e) else "illegal"
        except RuntimeError:
            res = "timeout"
        except Exception as e:
            res = "other-" + type(e).__name__
        return f"{res} st={drv.st} cw={nl(drv.cws)} trace={nl(drv.trace)} acc={drv.n}"
    if a[0] == "hist":
        start, rst, tr, auto12, extra, F, S = int(a[1]), int(a[2]), a[3], int(a[4]), int(a[5]), int(a[6]), int(a[7])
        drv = Drive(start, rst, auto12, extra, [], 0)
        node, net, clock = make_node(drv, tr, F, S)
        drv.n = 0
        results = []
        for item in unnl(a[8]):
            if item == 8:                      # a fault occurs: the drive enters its fault reaction
                drv._enter(FRA)
                continue
            if item in HIST_CFG_ITEMS:         # the application looks at the PDO configuration again
                if tr[0] == "p":
                    node.nmt.state = "PRE-OPERATIONAL"
                    apply_cfg(node, net, HIST_CFG_ITEMS[item])
                continue
            if tr[0] == "p":
                net.push_tpdo()                # the TPDO received before this assignment
            try:
                node.state = NAMES[item]
                results.append("ok")
            except ValueError as e:
                results.append("refused" if "cannot be entered" in str(e) else "illegal")
            except RuntimeError:
                results.append("timeout")
            except Exception as e:
                results.append("other-" + type(e).__name__)
        return f"{'/'.join(results) or '-'} st={drv.st} cw={nl(drv.cws)} trace={nl(drv.trace)} acc={drv.n}"
    if a[0] == "mode":
        mi, mask, tr, delay, M = int(a[1]), int(a[2]), a[3], int(a[4]), int(a[5])
        drv = Drive(SOD, 0, 0, 0, [], NEVER)
        drv.supported, drv.mode_delay = mask, delay
        node, net, clock = make_node(drv, tr, M=M)
        net.rpdo_is_mode = True
        if tr[0] == "p":
            net.tpdo_mode_read = True
        try:
            node.op_mode = MODES[mi]
            res = "ok"
        except (TypeError, KeyError):
            res = "refused"
        except Exception as e:
            res = "other-" + type(e).__name__
        return f"{res} wr={nl(drv.mode_writes)} rd={drv.mode_reads}"
    if a[0] == "modef":
        # like `mode`, then the state is assigned: an RPDO sent for that reason carries the mode that is in force
        mi, mask, tr, delay, M = int(a[1]), int(a[2]), a[3], int(a[4]), int(a[5])
        drv = Drive(SOD, 0, 0, 0, [], NEVER)
        drv.supported, drv.mode_delay = mask, delay
        node, net, clock = make_node(drv, tr, M=M)
        net.rpdo_is_mode = True
        if tr[0] == "p":
            net.tpdo_mode_read = True
        try:
            node.op_mode = MODES[mi]
            res = "ok"
        except (TypeError, KeyError):
            res = "refused"
        except Exception as e:
            res = "other-" + type(e).__name__
        wr, rd = nl(drv.mode_writes), drv.mode_reads
        net.rpdo_is_mode = False
        net.tpdo_mode_read = False
        del net.rpdo_modes[:]
        try:
            node.state = "READY TO SWITCH ON"
        except Exception as e:
            res += "+" + type(e).__name__
        return f"{res} wr={wr} rd={rd} carried={nl(net.rpdo_modes)}"
    if a[0] == "mhist":
        tr, mask = a[1], int(a[2])
        drv = Drive(SOD, 0, 0, 0, [], NEVER)
        drv.supported = mask
        node, net, clock = make_node(drv, tr)
        net.rpdo_is_mode = True
        if tr[0] == "p":
            net.tpdo_mode_read = True
        results = []
        for kind, mi, link in parse_msteps(a[3]):
            net.link = link
            before = len(drv.mode_writes)
            try:
                if kind == "a":
                    node.op_mode = MODES[mi]
                    res = "ok"
                elif kind == "q":
                    res = {True: "yes", False: "no"}.get(node.is_op_mode_supported(MODES[mi]), "other-value")
                else:
                    name = node.op_mode
                    res = f"m{MODES.index(name)}" if name in MODES else "other-name"
            except TypeError:
                res = "refused"
            except KeyError:
                res = "refused" if kind != "r" else "key"
            except canopen.SdoCommunicationError:
                res = "comm"
            except canopen.SdoAbortedError:
                res = "abort"
            except RuntimeError:
                res = "notpdo"
            except Exception as e:
                res = "other-" + type(e).__name__
            results.append(f"{res}:{nl(drv.mode_writes[before:])}")
        net.link = "u"
        return "/".join(results) or "-"
    return "bad-op"


def parse_msteps(s):
    """`a3u,q5d,r0x` -> [(kind, mode index, link)]"""
    steps = []
    for tok in ([] if s == "-" else s.split(",")):
        kind, mi, link = tok[0], int(tok[1:-1]), tok[-1]
        if kind not in "aqr" or link not in "udx" or not 0 <= mi < len(MODES):
            raise ValueError(f"bad step {tok!r}")
        steps.append((kind, mi, link))
    return steps


def fmt_msteps(steps):
    return ",".join(f"{k}{mi}{l}" for k, mi, l in steps) or "-"


# ---- independent oracle -----------------------------------------------------------------------------
def parse_out(out):
    f = out.split(" ")
    kv = dict(x.split("=", 1) for x in f[1:])
    return f[0], kv


def decode_spec(n):
    hits = [s for s, (m, v) in PATTERN.items() if n & m == v]
    return hits


def oracle(op, out):
    a = op.split(" ")
    if out.startswith("HARNESS-RAISED"):
        return f"the harness could not drive the implementation: {out}"
    if a[0] == "sw":
        hits = decode_spec(int(a[1]))
        if len(hits) > 1:
            return f"reference patterns overlap on {a[1]}"      # cannot happen (CiA 402)
        exp = str(hits[0]) if hits else "U"
        if out != exp:
            return (f"statusword 0x{int(a[1]):04X} reported as {out}, CiA 402 says "
                    f"{NAMES[hits[0]] if hits else 'no state (UNKNOWN)'}")
        return None
    if a[0] == "swl":
        n1, n2, k = int(a[1]), int(a[2]), int(a[3])
        hits = decode_spec(n2)
        exp = str(hits[0]) if hits else "U"
        if out != exp:
            return (f"statusword in two TPDOs (configuration history {a[4][1:]!r}): TPDO{3 - k} showed 0x{n1:04X}, then "
                    f"TPDO{k} showed 0x{n2:04X} - the drive's latest statusword - but the state is reported as {out}, "
                    f"CiA 402 says {NAMES[hits[0]] if hits else 'no state (UNKNOWN)'}")
        return None
    if a[0] == "goto":
        start, rst, target, d, F, S = int(a[1]), int(a[2]), int(a[3]), int(a[6]), int(a[8]), int(a[9])
        res, kv = parse_out(out)
        trace, cws, st, acc = unnl(kv["trace"]), unnl(kv["cw"]), int(kv["st"]), int(kv["acc"])
        if target not in COMMANDABLE:
            if cws:
                return f"target {NAMES[target]} cannot be commanded but controlwords {cws} were sent"
            # (assigning the state the drive already shows is a no-op, not a command)
            if res != "refused" and not (res == "ok" and st == target):
                return f"assigning the uncommandable state {NAMES[target]} ended as {res}, not refused"
            return None
        if res == "illegal" or res == "refused" or res.startswith("other"):
            return (f"assignment of {NAMES[target]} from {NAMES[start]} raised '{res}' "
                    f"(drive trace {[NAMES[s] for s in trace]})")
        if OE in trace[1:] and target not in (OE, QSA):
            return f"operation was enabled on the way from {NAMES[start]} to {NAMES[target]}"
        if any(c & 0x8F == 0x0F for c in cws) and target not in (OE, QSA):
            return f"enable-operation command sent although the target is {NAMES[target]}"
        if res == "ok" and st != target:
            return f"setter returned but the drive is in {NAMES[st]}, not {NAMES[target]}"
        # progress: a drive that performs pending automatic transitions within d accesses, and time-outs
        # that are generous for that delay (the oracle's own, deliberately coarse, bound)
        if d <= 6 and S >= 4 * (d + 2) and F >= 12 * S:
            if res != "ok":
                return (f"drive fires automatic transitions within {d} accesses, time-outs {F}/{S} ticks, "
                        f"but the assignment of {NAMES[target]} from {NAMES[start]}"
                        f"{' with bit 7 of the last controlword set' if rst else ''} ended as {res}")
            if acc > 150 * (d + 2):
                return f"{acc} accesses for one assignment with delay bound {d}"
        return None
    if a[0] == "hist":
        res, kv = parse_out(out)
        items = unnl(a[8])
        targets = [i for i in items if i != 8 and i not in HIST_CFG_ITEMS]
        results = [] if res == "-" else res.split("/")
        trace, cws, st = unnl(kv["trace"]), unnl(kv["cw"]), int(kv["st"])
        if len(results) != len(targets):
            return f"{len(targets)} assignments, {len(results)} results"
        for n, (t, r) in enumerate(zip(targets, results)):
            if t in COMMANDABLE and r != "ok":
                return (f"history {items} (8 = a fault occurs): assignment #{n + 1} of {NAMES[t]} ended as {r} "
                        f"(drive trace {[NAMES[x] for x in trace]}, controlwords {cws})")
            if t not in COMMANDABLE and r not in ("refused", "ok"):
                return f"history {items}: assigning the uncommandable state {NAMES[t]} ended as {r}"
        if (OE in trace[1:] or any(c & 0x8F == 0x0F for c in cws)) and not any(t in (OE, QSA) for t in targets):
            return f"history {items}: operation was enabled although never asked for"
        if items and items[-1] in COMMANDABLE and st != items[-1]:
            return f"history {items}: all assignments returned but the drive is in {NAMES[st]}"
        return None
    if a[0] == "modef":
        w = oracle(" ".join(["mode"] + a[1:]), out.rsplit(" carried=", 1)[0])
        if w:
            return w
        res, kv = parse_out(out)
        carried = unnl(kv["carried"])
        name = MODES[int(a[1])]
        want = 0
        if res == "ok":
            want = 0 if name == "NO MODE" else MODE_BIT_CODE[name][1]
        if a[3][0] == "p" and any(c != want for c in carried):
            return (f"modef: after mode {name} was {'set' if res == 'ok' else 'refused'} an RPDO sent for the "
                    f"controlword carried mode code(s) {carried}, the mode in force is {want}")
        return None
    if a[0] == "mhist":
        return oracle_mhist(a, out)
    if a[0] == "mode":
        name, mask = MODES[int(a[1])], int(a[2])
        res, kv = parse_out(out)
        wr = unnl(kv["wr"])
        adv, code = mode_truth(name, mask)
        if not adv:
            if wr or res != "refused":
                return f"mode {name} is not advertised by 0x{mask:X} but result {res}, written {wr}"
        elif res != "ok" or wr != [code]:
            return f"mode {name} advertised by 0x{mask:X}: result {res}, written {wr}, CiA 402 code {code}"
        return None
    return None


def mode_truth(name, mask):
    """CiA 402: (does a drive whose 0x6502 reads `mask` advertise the mode, its 0x6060 code)"""
    if name == "NO MODE":
        return True, 0
    if name in MODE_BIT_CODE:
        bit, code = MODE_BIT_CODE[name]
        return bool(mask >> bit & 1), code
    return False, None


LINK_TEXT = {"u": "drive reachable", "d": "drive unreachable (no response)", "x": "0x6502 answered with an abort"}
KIND_TEXT = {"a": "op_mode = {!r}", "q": "is_op_mode_supported({!r})", "r": "read of op_mode"}


def oracle_mhist(a, out):
    """Every step is judged by what the DRIVE advertises (its 0x6502 value `mask`, whether or not it could be read
    at that moment) and by what reached the drive; nothing here knows about a cache."""
    mask, steps = int(a[2]), parse_msteps(a[3])
    results = [] if out == "-" else out.split("/")
    if len(results) != len(steps):
        return f"mode history {a[3]}: {len(steps)} steps, {len(results)} results"
    shown = 0                         # the drive displays the last code it received (0 at power-on)
    code_name = {0: "NO MODE", **{c: n for n, (_, c) in MODE_BIT_CODE.items()}}
    for n, ((kind, mi, link), r) in enumerate(zip(steps, results)):
        res, _, wr = r.rpartition(":")
        wr = unnl(wr)
        name = MODES[mi]
        adv, code = mode_truth(name, mask)
        known = name == "NO MODE" or name in MODE_BIT_CODE
        where = (f"mode history {a[3]} on a drive with 0x6502 = 0x{mask:X}, step #{n + 1} "
                 f"({KIND_TEXT[kind].format(name)}, {LINK_TEXT[link]})")
        if res.startswith("other"):
            return f"{where}: raised/returned {res}"
        if wr and (kind != "a" or link == "d"):
            return f"{where}: {wr} written to 0x6060 by a step that cannot write"
        if kind == "a":
            if not adv:
                if wr:
                    return f"{where}: the mode is not advertised but {wr} was written to 0x6060"
                if link == "u" and res != "refused":
                    return f"{where}: the mode is not advertised, result {res} instead of a refusal"
                if link == "x" and res not in ("refused", "abort"):
                    return f"{where}: the mode is not advertised, result {res}"
            else:
                if res == "refused":
                    return (f"{where}: the drive advertises the mode (CiA 402 code {code}) but the assignment was "
                            f"refused" + ("" if all(l == "u" for _, _, l in steps[:n + 1]) else
                                          " - a failed access must not turn into a refusal"))
                if link == "u" and (res != "ok" or wr != [code]):
                    return f"{where}: advertised mode, result {res}, written {wr}, CiA 402 code {code}"
                if link == "x" and not ((res == "ok" and wr == [code]) or (res == "abort" and not wr)):
                    return f"{where}: advertised mode, result {res}, written {wr}, CiA 402 code {code}"
                if link == "d" and res not in ("ok", "comm", "notpdo"):
                    return f"{where}: advertised mode, result {res}"
            if wr:
                shown = wr[-1]
        elif kind == "q":
            if res == "yes" and not adv:
                return f"{where}: the mode is not advertised but reported as supported"
            if res == "no" and adv:
                return (f"{where}: the drive advertises the mode but it is reported as unsupported"
                        + ("" if all(l == "u" for _, _, l in steps[:n + 1]) else
                           " - a failed access must not turn into a refusal"))
            if res == "refused" and known:
                return f"{where}: advertised-or-not, the name is a CiA 402 mode but the call raised KeyError/TypeError"
            if link == "u" and res not in ("yes", "no", "refused"):
                return f"{where}: advertised-or-not, no answer from a reachable drive: {res}"
            if res in ("notpdo", "key"):
                return f"{where}: advertised-or-not, result {res}"
        else:
            if res.startswith("m"):
                if MODES[int(res[1:])] != code_name.get(shown):
                    return (f"{where}: read {MODES[int(res[1:])]!r}, the drive displays code {shown} "
                            f"({code_name.get(shown)})")
            elif link != "d" or res not in ("comm", "notpdo"):
                return f"{where}: read ended as {res}, the drive displays code {shown} ({code_name.get(shown)})"
    return None


TRANSPORT_POS = {"sw": 2, "swl": 4, "goto": 4, "hist": 3, "mode": 3, "modef": 3, "mhist": 1}
# Histories that end with TPDO1 switched off (layout `z`): on the unchanged tree `tpdo_pointers` keeps naming TPDO1,
# `check_statusword` waits for a TPDO that never comes and every assignment over PDO ends in RuntimeError.  This is
# the recorded open finding F27 (known_findings.json, signature cfg:tpdo1-off); VERIF_C19_TPDO1_OFF=0 leaves these
# histories out of the stream.
TPDO1_OFF_IN_STREAM = os.environ.get("VERIF_C19_TPDO1_OFF", "1") != "0"


def cfg_of(op):
    a = op.split(" ")
    pos = TRANSPORT_POS.get(a[0])
    if pos is None or pos >= len(a):
        return None
    tr, cfg = split_transport(a[pos])
    return cfg if tr == "p" and cfg else None


def model_skips(op):
    """the model answers `unmodelled` when the configuration history leaves the profile waiting for a TPDO the
    drive no longer transmits; the oracle judges those operations alone"""
    cfg = cfg_of(op)
    return cfg is not None and layout_after(cfg) == "z" and op.split(" ")[0] not in ("sw", "swl")


def signature(op, what):
    cfg = cfg_of(op)
    if cfg is not None and layout_after(cfg) == "z":
        # one history class, one cause (recorded finding F27): after the statusword was moved to another TPDO and
        # TPDO1 switched off, the profile keeps waiting for TPDO1
        return "cfg:tpdo1-off"
    return signature0(op, what)


def signature0(op, what):
    a = op.split(" ")
    if a[0] == "swl":
        return "swl:decode"
    if a[0] == "mhist":
        if what.rsplit("): ", 1)[-1].startswith("read "):
            return "mhist:read"
        if "advertised-or-not" in what or "cannot write" in what or "raised/returned" in what or "results" in what:
            return "mhist:other"
        return "mhist:" + ("not-advertised" if "not advertised" in what else "advertised")
    if a[0] == "goto":
        if "raised 'illegal'" in what:
            return "goto:illegal"
        if "operation was enabled" in what or "enable-operation command" in what:
            return "goto:enabled"
        if "cannot be commanded" in what or "uncommandable" in what:
            return "goto:uncommandable"
        if "ended as" in what:
            return "goto:no-progress"
        return "goto:other"
    if a[0] == "sw":
        return "sw:decode"
    if a[0] == "hist":
        return "hist:enabled" if "operation was enabled" in what else \
            ("hist:uncommandable" if "uncommandable" in what else "hist:no-progress")
    return f"{a[0]}:" + ("not-advertised" if "not advertised" in what else "advertised")


def nontrivial(op, out):
    a = op.split(" ")
    if a[0] == "sw":
        return out != "U"
    if a[0] in ("goto", "hist"):
        return " cw=-" not in out
    if a[0] == "swl":
        return out != "U"
    if a[0] == "mhist":
        return any(not r.endswith(":-") for r in out.split("/") if r != "-")     # a mode reached the drive
    return " wr=-" not in out


def classify(op, out):
    cfg = cfg_of(op)
    if cfg is not None:       # one class per op kind and TPDO layout; the histories themselves are listed by RULE
        a = op.split(" ")
        pos = TRANSPORT_POS[a[0]]
        return classify0(" ".join(a[:pos] + ["p+cfg-" + layout_after(cfg)] + a[pos + 1:]), out)
    return classify0(op, out)


def classify0(op, out):
    a = op.split(" ")
    if a[0] == "sw":
        return "sw:" + a[2] + ":" + ("unknown" if out == "U" else "state")
    if a[0] == "swl":
        return "swl:" + a[4] + ":" + ("unknown" if out == "U" else "state")
    if a[0] == "goto":
        return f"goto:{a[4]}:{out.split(' ')[0]}"
    if a[0] == "hist":
        return f"hist:{a[3]}:" + ("ok" if set(out.split(" ")[0].split("/")) <= {"ok", "refused", "-"} else "failed")
    if a[0] == "mhist":
        steps = parse_msteps(a[3])
        first = next((l for k, _, l in steps if k != "r"), "u")      # link at the first supported-modes look-up
        later = "fail" if any(l != "u" for _, _, l in steps[1:]) else "clean"
        return f"mhist:{a[1]}:first-{first}:{later}"
    return f"mode:{a[3]}:{out.split(' ')[0]}"


def shrink_candidates(op):
    cfg = cfg_of(op)
    if cfg is not None:                    # a shorter configuration history first
        a = op.split(" ")
        pos = TRANSPORT_POS[a[0]]
        for i in range(len(cfg)):
            short = cfg[:i] + cfg[i + 1:]
            if a[0] == "swl" and layout_after(short) != "y":
                continue
            yield " ".join(a[:pos] + ["p" + short] + a[pos + 1:])
    yield from shrink_candidates0(op)


def shrink_candidates0(op):
    a = op.split(" ")
    if a[0] == "mhist":
        steps = parse_msteps(a[3])
        for i in range(len(steps)):
            yield " ".join(a[:3] + [fmt_msteps(steps[:i] + steps[i + 1:])])
        for i, (k, mi, l) in enumerate(steps):
            if l != "u":
                yield " ".join(a[:3] + [fmt_msteps(steps[:i] + [(k, mi, "u")] + steps[i + 1:])])
        mask = int(a[2])
        for b in range(32):
            if mask >> b & 1:
                yield " ".join(a[:2] + [str(mask & ~(1 << b))] + a[3:])
        return
    if a[0] == "hist":
        items = unnl(a[8])
        for i in range(len(items)):
            yield " ".join(a[:8] + [nl(items[:i] + items[i + 1:])])
        if a[5] != "0":
            yield " ".join(a[:5] + ["0"] + a[6:])
        return
    if a[0] == "goto":
        sched = unnl(a[10])
        for i in range(len(sched)):
            yield " ".join(a[:10] + [nl(sched[:i] + sched[i + 1:])])
        if a[7] != "0":
            yield " ".join(a[:7] + ["0"] + a[8:])
        if a[5] != "0":
            yield " ".join(a[:5] + ["0"] + a[6:])
        for i, v in enumerate(sched):
            if v > 0 and v - 1 not in sched:
                yield " ".join(a[:10] + [nl(sorted(sched[:i] + [v - 1] + sched[i + 1:]))])


# ---- generator ------------------------------------------------------------------------------------------
def goto(start, rst, target, tr, auto12, d, extra, F, S, sched):
    return f"goto {start} {rst} {target} {tr} {auto12} {d} {extra} {F} {S} {nl(sorted(set(sched)))}"


def gen_ops(tier, rng):
    quick = tier == "quick"
    # -- every statusword
    for n in range(65536):
        yield f"sw {n} p"
    if quick:
        for n in range(512):
            yield f"sw {n} s"
        for _ in range(8000):
            yield f"sw {rng.getrandbits(16)} s"
    else:
        for n in range(65536):
            yield f"sw {n} s"
    # -- all 8 x 8 pairs, both transports, both reset-bit values, schedules
    horizon = 16 if quick else 24
    F, S = 500, 40
    for tr in "sp":
        for start in range(8):
            for target in range(8):
                for rst in (0, 1):
                    for auto12 in ((0, 1) if start == QSA or target in (OE, QSA) else (0,)):
                        # no firing ever asked for: only the delay bound d forces them
                        for d in (0, 1, 3, 6):
                            yield goto(start, rst, target, tr, auto12, d, rng.getrandbits(16), F, S, [])
                        if start in (NRTSO, FRA, QSA) or auto12:
                            # one and two firings anywhere among the first accesses
                            for i in range(horizon):
                                yield goto(start, rst, target, tr, auto12, 6, rng.getrandbits(16), F, S, [i])
                            pairs = [(i, j) for i in range(horizon) for j in range(i + 1, horizon)]
                            if quick:
                                pairs = rng.sample(pairs, 24)
                            for i, j in pairs:
                                yield goto(start, rst, target, tr, auto12, 6, rng.getrandbits(16), F, S, [i, j])
                        # the real ratio of the two time-outs, short, drive that never fires on its own
                        yield goto(start, rst, target, tr, auto12, NEVER, 0, 8, 4, [])
    # -- the objects mapped in switched-off PDOs: decoding and every pair once (behaves as SDO transport)
    for n in list(range(0, 65536, 257 if quick else 17)) + [0x0650, 0x0631, 0x0633, 0x0637, 0x0617, 0x061F, 0x0618]:
        yield f"sw {n} d"
    for start in range(8):
        for target in range(8):
            yield goto(start, rng.getrandbits(1), target, "d", 0, rng.choice((0, 1, 3)), rng.getrandbits(16), F, S, [])
    # -- seeded: everything random, including tight time-outs
    for _ in range(3000 if quick else 30000):
        k = rng.choice((0, 1, 2, 3))
        sched = rng.sample(range(40), k)
        d = rng.choice((0, 1, 2, 5, 6, 20, NEVER))
        S = rng.choice((1, 2, 4, 9, 30, 40))
        F = rng.choice((1, 3, 8, 2 * S, 12 * S, 500))
        yield goto(rng.randrange(8), rng.getrandbits(1), rng.randrange(8), rng.choice("sp"),
                   rng.getrandbits(1), d, rng.getrandbits(16), F, S, sched)
    # -- histories on one node: assignments with faults occurring in between (drive performs its
    #    automatic transitions at once, generous time-outs); every assignment must succeed
    for tr in "sp":
        for t1 in COMMANDABLE:
            for t2 in COMMANDABLE:
                yield f"hist {FAULT} 0 {tr} 0 {rng.getrandbits(16)} 500 40 {t1},8,{t2}"      # reset, new fault, again
                yield f"hist {SOD} 0 {tr} 0 {rng.getrandbits(16)} 500 40 {t1},8,{t2},8,{t1}"
        for _ in range(150 if quick else 3000):
            items = [rng.choice(COMMANDABLE + (8, 8, 8)) for _ in range(rng.randrange(2, 9))]
            yield (f"hist {rng.randrange(8)} {rng.getrandbits(1)} {tr} {rng.getrandbits(1)} "
                   f"{rng.getrandbits(16)} 500 40 {nl(items)}")
        for _ in range(40 if quick else 500):
            items = [rng.choice(tuple(range(9))) for _ in range(rng.randrange(1, 7))]
            yield f"hist {rng.randrange(8)} {rng.getrandbits(1)} {tr} 0 {rng.getrandbits(16)} 500 40 {nl(items)}"
    # -- operation modes x supported-mode masks
    tenbits = [0, 1, 2, 3, 5, 6, 7, 8, 9, 4]
    for mi in range(len(MODES)):
        masks = set()
        for m in range(1 << 10):
            if quick and m % 7 and bin(m).count("1") not in (0, 1, 9, 10):
                continue
            masks.add(sum(1 << tenbits[i] for i in range(10) if m >> i & 1))
        masks |= {0xFFFFFFFF, 0xFFFF0000, 0x80000000, 0x10}
        for _ in range(20 if quick else 300):
            masks.add(rng.getrandbits(32))
        for m in sorted(masks):
            yield f"mode {mi} {m} {'sp'[m % 2 if quick else 0]} 0 5"
            if not quick:
                yield f"mode {mi} {m} p 0 5"
        for delay in (1, 2, 5, 6, 7, 50):
            for tr in "sp":
                yield f"mode {mi} {rng.getrandbits(32) | 0x3EF} {tr} {delay} 5"
        # the mode request followed by a state assignment (controlword and mode share RPDO 1)
        for m in (0, 0x3EF, 0xFFFFFFFF, rng.getrandbits(10), rng.getrandbits(10)):
            for tr in "sp":
                yield f"modef {mi} {m} {tr} 0 5"
    # -- histories of mode steps on one node object over an unreliable link: the supported-modes look-up (first
    #    use of 0x6502) fails - drive unreachable / object missing - for chosen steps, the very first included
    for op in gen_mhist(quick, rng):
        yield op
    # -- the configuration history of the node object as a dimension of the PDO transport: set up again, PDO
    #    configuration read again, TPDOs re-mapped; then decoding, all 8 x 8 transitions, histories, mode ops
    for op in gen_cfg(quick, rng):
        yield op


# configuration histories after the first set-up (letters: see CFG_CALLS and LAYOUTS), every one leaving TPDO1 transmitted
CFG_SYSTEMATIC = ["a", "b", "m", "t", "r", "q",                                   # once more / read again
                  "mm", "bb", "ab", "ba", "mt", "tm", "qb", "tr", "rq", "tt", "mtm",
                  "y", "yb", "ym", "yt", "yq", "ya",                              # statusword in two TPDOs
                  "x", "xb", "xm", "xt", "xq",                                    # statusword moved to TPDO2
                  "yx", "xy", "yw", "xw", "xwm", "zw", "zwb", "ztw", "xyt"]       # re-mapped twice / back
CFG_TPDO1_OFF = ["z", "zb", "zm", "zt", "xz", "yz"]


def random_cfg(rng):
    while True:
        cfg = "".join(rng.choice("abmtrqabmtrqwyxz") for _ in range(rng.randrange(1, 6)))
        if TPDO1_OFF_IN_STREAM or layout_after(cfg) != "z":
            return cfg


def gen_cfg(quick, rng):
    cfgs = CFG_SYSTEMATIC + (CFG_TPDO1_OFF if TPDO1_OFF_IN_STREAM else [])
    F, S = 500, 40
    sample = [0x0650, 0x0631, 0x0633, 0x0637, 0x0617, 0x061F, 0x0618, 0x0000, 0xFFFF, 0x0250, 0x0027]
    # -- decoding: the low seven bits decide (all of them), the other bits seeded; thorough: every statusword for
    #    the single steps, a stride for the rest
    for ci, cfg in enumerate(cfgs):
        if quick:
            ns = [low | (rng.getrandbits(9) << 7) for low in range(128)] + sample
        elif len(cfg) == 1:
            ns = range(65536)
        else:
            ns = list(range(ci % 13, 65536, 13)) + sample
        for n in ns:
            yield f"sw {n} p{cfg}"
    # -- the statusword in both TPDOs, showing different values one after the other: the later frame counts
    for cfg in [c for c in cfgs if layout_after(c) == "y"] + ["yr", "ymm", "wy", "zy"]:
        for s1 in range(8):
            for s2 in range(8):
                for k in (1, 2):
                    n1 = (rng.getrandbits(16) & ~PATTERN[s1][0]) | PATTERN[s1][1]
                    n2 = (rng.getrandbits(16) & ~PATTERN[s2][0]) | PATTERN[s2][1]
                    yield f"swl {n1} {n2} {k} p{cfg}"
        for _ in range(30 if quick else 2000):
            yield f"swl {rng.getrandbits(16)} {rng.getrandbits(16)} {rng.choice((1, 2))} p{cfg}"
    # -- all 8 x 8 pairs under every systematic history
    for cfg in cfgs:
        for start in range(8):
            for target in range(8):
                for rst in ((rng.getrandbits(1),) if quick else (0, 1)):
                    for d in ((rng.choice((0, 1, 3)),) if quick else (0, 1, 3, 6)):
                        a12 = rng.getrandbits(1) if start == QSA or target in (OE, QSA) else 0
                        yield goto(start, rst, target, "p" + cfg, a12, d, rng.getrandbits(16), F, S, [])
                if not quick and start in (NRTSO, FRA, QSA):
                    for i in range(12):
                        yield goto(start, rng.getrandbits(1), target, "p" + cfg, rng.getrandbits(1), 6,
                                   rng.getrandbits(16), F, S, [i])
    # -- seeded: history, schedule, time-outs all random
    for _ in range(1200 if quick else 25000):
        k = rng.choice((0, 1, 2, 3))
        sched = rng.sample(range(40), k)
        d = rng.choice((0, 1, 2, 5, 6, 20, NEVER))
        S2 = rng.choice((1, 2, 4, 9, 30, 40))
        F2 = rng.choice((1, 3, 8, 2 * S2, 12 * S2, 500))
        yield goto(rng.randrange(8), rng.getrandbits(1), rng.randrange(8), "p" + random_cfg(rng),
                   rng.getrandbits(1), d, rng.getrandbits(16), F2, S2, sched)
    # -- histories of assignments with faults AND configuration steps in between (items 10..15 = a b m t r q)
    for cfg in ("", "m", "b", "y", "x"):
        for item in HIST_CFG_ITEMS:
            yield f"hist {SOD} 0 p{cfg} 0 {rng.getrandbits(16)} 500 40 {OE},{item},{RTSO},8,{item},{SO}"
            yield f"hist {FAULT} 1 p{cfg} 0 {rng.getrandbits(16)} 500 40 {item},{SOD},{item},{item},{OE},{QSA}"
    for _ in range(250 if quick else 5000):
        items = [rng.choice(COMMANDABLE + (8, 8) + tuple(HIST_CFG_ITEMS)) for _ in range(rng.randrange(2, 9))]
        tr = "p" + (random_cfg(rng) if rng.getrandbits(1) else "")
        yield (f"hist {rng.randrange(8)} {rng.getrandbits(1)} {tr} {rng.getrandbits(1)} "
               f"{rng.getrandbits(16)} 500 40 {nl(items)}")
    for _ in range(20 if quick else 300):             # the same items over SDO: they change nothing there
        items = [rng.choice(COMMANDABLE + (8,) + tuple(HIST_CFG_ITEMS)) for _ in range(rng.randrange(2, 7))]
        yield f"hist {rng.randrange(8)} {rng.getrandbits(1)} s 0 {rng.getrandbits(16)} 500 40 {nl(items)}"
    # -- mode of operation and its display over PDO under the histories
    for cfg in cfgs:
        for mi in range(len(MODES)):
            bit = MODE_BIT_CODE.get(MODES[mi], (None,))[0]
            for mask in ([0x3EF] if bit is None else [0x3EF, 0x3EF & ~(1 << bit)]):
                yield f"mode {mi} {mask} p{cfg} {rng.choice((0, 0, 1, 2, 6))} 5"
        for mi in rng.sample(range(len(MODES)), 3 if quick else len(MODES)):
            yield f"modef {mi} {rng.choice((0x3EF, rng.getrandbits(10)))} p{cfg} 0 5"
        yield f"mhist p{cfg} 37 a3d,a3u,q5u,r0u,a4u,r0d,a1x,a6u,r0u"
    for _ in range(200 if quick else 5000):
        steps = []
        for _ in range(rng.randrange(1, 8)):
            k = rng.choice("aaaqrr")
            steps.append((k, 0 if k == "r" else rng.randrange(len(MODES)), rng.choice("uuuudx")))
        yield f"mhist p{random_cfg(rng)} {rng.choice((rng.getrandbits(10), 0x3EF))} {fmt_msteps(steps)}"


def gen_mhist(quick, rng):
    full = 0x3EF
    for tr in "sp":
        for mi in range(len(MODES)):
            bit = MODE_BIT_CODE.get(MODES[mi], (None,))[0]
            masks = [full, 0] if bit is None else [full, 1 << bit, full & ~(1 << bit)]
            for mask in masks:
                for link in "dx":
                    for k in "aq":
                        # the first look-up fails, then the drive is there: assign, ask, read; then lost again
                        yield f"mhist {tr} {mask} {k}{mi}{link},a{mi}u,q{mi}u,r0u,a{mi}{link},r0{link}"
                # two failures of different kinds before the first success; success first, failures later
                yield f"mhist {tr} {mask} q{mi}d,a{mi}x,q{mi}u,a{mi}u,r0u"
                yield f"mhist {tr} {mask} a{mi}u,q{mi}d,a{(mi + 1) % len(MODES)}x,r0d,a{mi}d,r0u"
    yield "mhist d 37 a3d,q3x,a3u,r0u,a4u,r0d"
    yield "mhist s 0 -"
    for _ in range(1500 if quick else 25000):
        tr = rng.choice("ssppd")
        mask = rng.choice((rng.getrandbits(10), rng.getrandbits(10), rng.getrandbits(32), full, 0))
        weights = rng.choice(("uuudx", "udx", "ddxu", "uuuuuud"))
        steps = []
        for _ in range(rng.randrange(1, 9)):
            k = rng.choice("aaaqqr")
            steps.append((k, 0 if k == "r" else rng.randrange(len(MODES)), rng.choice(weights)))
        yield f"mhist {tr} {mask} {fmt_msteps(steps)}"


CORPUS = [
    # F11: automatic transition 1 between the two status reads of one loop iteration (before the fix:
    # ValueError "Illegal state transition from SWITCH ON DISABLED to SWITCH ON DISABLED")
    "goto 0 0 4 s 0 1000000000 0 400 30 2",
    "goto 0 0 1 s 0 1000000000 0 400 30 2",
    # F11, getter torn by transition 14 between the FAULT row and the FAULT REACTION ACTIVE row
    "goto 6 0 2 s 0 1000000000 0 400 30 13",
    # fault reset with bit 7 of the last controlword already set (before the fix: 0x80 written again,
    # no rising edge, RuntimeError time-out) - as a start configuration and as the history producing it
    "goto 5 1 1 s 0 0 0 400 30 -",
    "goto 5 1 4 p 0 0 0 400 30 -",
    "hist 5 0 s 0 0 500 40 1,8,1",
    # the first supported-modes look-up meets a drive that does not answer / has no 0x6502; once the drive is there
    # an advertised mode is written with its code, an unadvertised one refused (nothing may be remembered from
    # the failed look-up)
    # the node object is set up a second time / its PDO configuration read again: the statusword carried by the TPDO
    # is still the one decoded and waited for (C19_31E7: the cache followed the stale PdoVariable objects)
    "sw 567 pm",
    "hist 1 0 p 0 0 500 40 2,12,3,13,4",
    "goto 1 0 4 pmm 0 0 0 500 40 -",
    "swl 39 567 2 py",
    "mhist s 37 a3d,a3u,r0u,a4u",
    "mhist p 37 q3x,q3u,a3u,r0u",
]

LEVEL_TEXT = ("Lean 4 theorems over the generated 402 tables: every statusword decodes to exactly the CiA 402 state "
              "it matches or UNKNOWN; for all 8 start states x reset bit x 5 commandable targets x both transports and "
              "ALL schedules of automatic transitions and time-out expiries (unbounded length) the setter never "
              "raises the illegal-transition error and never enables operation unless asked to (configuration graph "
              "closed in-kernel + induction over the history); progress from EVERY start configuration (FAULT with any "
              "last controlword included) within 256(d+1) steps under at most d stalls (ranking checked in-kernel); uncommandable "
              "targets refused without any controlword; operation modes refused / written with the CiA 402 code "
              "for every 0x6502 mask; over ALL histories of mode steps on one node object with the drive unreachable or "
              "0x6502 aborted at any steps (the first look-up included): the remembered supported-modes value is unset or "
              "the advertised one, so a reachable drive gets every advertised mode written with its code and every other "
              "one refused, and a failed look-up is never turned into a refusal; over ALL configuration histories of "
              "the node object (set up again, PDO configuration read again, TPDOs re-mapped) the statusword cache after a "
              "received frame is that frame's field whichever PdoVariable object carries it, the last frame of either "
              "TPDO counting, so decoding and the transition theorems apply unchanged whenever TPDO1 is still transmitted")
LEVEL_NOTE = ("trusted: Lean kernel + propext/Classical.choice/Quot.sound; the CiA 402 drive specification "
              "(Spec/Drive402.lean, Python reference drive); real time-outs are abstracted (tick counter in the "
              "correspondence, arbitrary choice in the safety theorem); the correspondence is as strong as its generator")
TECHNIQUE = "Lean 4 proof over generated tables + differential correspondence with the implementation"
