"""C04 — data type codec is the exact CiA 301 representation and never silently wraps."""
import logging
import math
from fractions import Fraction

from canopen import objectdictionary as od
from canopen.objectdictionary import datatypes as dt

logging.getLogger("canopen").setLevel(logging.CRITICAL + 1)      # limit warnings are not part of the result

ID = "C04"
PROOF_MODULES = ["CanopenProofs.C04"]
GENERATED = ["Datatypes"]
THEOREMS = [
    "Canopen.C04.table_matches_cia301",
    "Canopen.C04.encode_length",
    "Canopen.C04.encode_is_twos_complement_le",
    "Canopen.C04.decode_encode",
    "Canopen.C04.encode_decode",
    "Canopen.C04.encode_rejects_out_of_range",
    "Canopen.C04.decode_rejects_wrong_length",
    "Canopen.C04.bool_codec",
    "Canopen.C04.real_bits",
    "Canopen.C04.visible_string_roundtrip",
    "Canopen.C04.unicode_string_roundtrip",
]
FINGERPRINT = [
    "canopen.objectdictionary:ODVariable.encode_raw",
    "canopen.objectdictionary:ODVariable.decode_raw",
    "canopen.objectdictionary:ODVariable.__len__",
    "canopen.objectdictionary.datatypes:UnsignedN",
    "canopen.objectdictionary.datatypes:IntegerN",
]
TRUSTED = [
    "CPython struct pack/unpack modelled as little-endian two's complement with range and "
    "length check; '?' as truthiness; 'f'/'d' carried as IEEE-754 bit patterns "
    "(float<->pattern conversion is differential-only)",
    "str.encode/bytes.decode for ascii and utf_16_le modelled (CanopenModel/Codec.lean)",
    "Spec/Cia301Types.lean: my reading of CiA 301 table of basic data types",
]
ASSUMPTIONS = ["value kinds outside the property's domain (e.g. str handed to an integer type) "
               "are not modelled and not generated"]
RULE = ("ops enc/encb/encf/encs/dec/len/rts/encr over the generated STRUCT_TYPES; exhaustive for "
        "8- and 16-bit types in both directions, boundary +-2 around every power of two and "
        "range end for wider types, seeded random, byte strings of every length 0..9; "
        "non-trivial = the implementation returned a value (not an error) and the op is not a "
        "duplicate")

# CiA 301 widths, written independently of the code (the oracle's own table)
SPEC = {0x02: (8, True), 0x03: (16, True), 0x04: (32, True), 0x10: (24, True), 0x12: (40, True),
        0x13: (48, True), 0x14: (56, True), 0x15: (64, True),
        0x05: (8, False), 0x06: (16, False), 0x07: (32, False), 0x16: (24, False),
        0x18: (40, False), 0x19: (48, False), 0x1A: (56, False), 0x1B: (64, False)}
REALS = {0x08: (32, 8, 23), 0x11: (64, 11, 52)}
BOOL = 0x01
VIS, OCT, UNI, DOM = 0x09, 0x0A, 0x0B, 0x0F


def hx(b):
    return b.hex() if len(b) else "-"


def unhx(s):
    return b"" if s == "-" else bytes.fromhex(s)


def nl(xs):
    return ",".join(str(x) for x in xs) if xs else "-"


def unnl(s):
    return [] if s == "-" else [int(x) for x in s.split(",")]


# ---- independent integer-only IEEE-754 helpers ---------------------------------------------
def bits_to_float(bits, ebits, mbits):
    sign = -1.0 if bits >> (ebits + mbits) else 1.0
    e = (bits >> mbits) & ((1 << ebits) - 1)
    m = bits & ((1 << mbits) - 1)
    bias = (1 << (ebits - 1)) - 1
    if e == (1 << ebits) - 1:
        return sign * math.inf if m == 0 else math.copysign(math.nan, sign)
    if e == 0:
        fr = Fraction(m, 1 << mbits) * Fraction(2) ** (1 - bias)
    else:
        fr = (1 + Fraction(m, 1 << mbits)) * Fraction(2) ** (e - bias)
    return sign * float(fr)   # exact: the value is representable in a double


def float_to_bits(f, ebits, mbits):
    """round-to-nearest-even encoding of a Python float, integer arithmetic only"""
    signbit = 1 if math.copysign(1.0, f) < 0 else 0
    top = signbit << (ebits + mbits)
    emax = (1 << ebits) - 1
    bias = (1 << (ebits - 1)) - 1
    if math.isnan(f):
        return top | (emax << mbits) | (1 << (mbits - 1))
    if math.isinf(f):
        return top | (emax << mbits)
    fr = abs(Fraction(f))
    if fr == 0:
        return top
    # find e with 2^e <= fr < 2^(e+1)
    e = fr.numerator.bit_length() - fr.denominator.bit_length()
    if Fraction(2) ** e > fr:
        e -= 1
    if Fraction(2) ** (e + 1) <= fr:
        e += 1
    e = max(e, 1 - bias)
    scaled = fr / Fraction(2) ** (e - mbits)     # mantissa incl. hidden bit, as a rational
    q, r = divmod(scaled.numerator, scaled.denominator)
    twice = 2 * r
    if twice > scaled.denominator or (twice == scaled.denominator and q & 1):
        q += 1
    if q >= (2 << mbits):
        q >>= 1
        e += 1
    if q < (1 << mbits):            # subnormal
        return top | q
    if e + bias >= emax:
        return None                 # overflow: struct raises OverflowError for 'f'
    return top | ((e + bias) << mbits) | (q - (1 << mbits))


# ---- implementation runner --------------------------------------------------------------------
def mkvar(t):
    v = od.ODVariable("v", 0x2000, 0)
    v.data_type = None if t == "none" else int(t)
    return v


def show_val(v, t):
    if isinstance(v, bool):
        return f"bool {int(v)}"
    if isinstance(v, int):
        return f"int {v}"
    if isinstance(v, float):
        if math.isnan(v):
            return "real nan"       # NaN payloads are not compared (DESIGN §4: no floats compared)
        eb, mb = (8, 23) if t == "8" else (11, 52)
        return f"real {float_to_bits(v, eb, mb)}"
    if isinstance(v, str):
        return "str " + nl([ord(c) for c in v])
    if isinstance(v, (bytes, bytearray)):
        return "bytes " + hx(bytes(v))
    return f"other {type(v).__name__}"


def run_impl(op):
    a = op.split(" ")
    kind, t = a[0], a[1]
    var = mkvar(t)
    try:
        if kind == "encl":
            # the entry declares limits (LowLimit / HighLimit): they are advisory, the codec is the same
            var.min, var.max = int(a[3]), int(a[4])
            r = var.encode_raw(int(a[2]))
        elif kind == "enc":
            r = var.encode_raw(int(a[2]))
        elif kind == "encb":
            r = var.encode_raw(a[2] == "1")
        elif kind == "encf":
            _, eb, mb = REALS[int(t)]
            r = var.encode_raw(bits_to_float(int(a[2]), eb, mb))
        elif kind == "encr":            # a double that may need rounding to fit (oracle only)
            r = var.encode_raw(bits_to_float(int(a[2]), 11, 52))
        elif kind == "encs":
            r = var.encode_raw("".join(chr(c) for c in unnl(a[2])))
        elif kind == "dec":
            return "ok " + show_val(var.decode_raw(unhx(a[2])), t)
        elif kind == "rts":
            s = "".join(chr(c) for c in unnl(a[2]))
            return "ok " + show_val(var.decode_raw(var.encode_raw(s)), t)
        elif kind == "len":
            return f"ok {len(var)}"
        else:
            return "bad-op"
        if not isinstance(r, (bytes, bytearray)):
            return f"ok-nonbytes {type(r).__name__}"
        return "ok " + hx(bytes(r))
    except Exception:
        return "err"


def is_nan_pattern(t, bits):
    w, eb, mb = REALS[t]
    return (bits >> mb) & ((1 << eb) - 1) == (1 << eb) - 1 and bits & ((1 << mb) - 1) != 0


def canon_model(op, out):
    a = op.split(" ")
    if a[0] == "dec" and a[1] in ("8", "17") and out.startswith("ok real "):
        if is_nan_pattern(int(a[1]), int(out[8:])):
            return "ok real nan"
    return out


def model_skips(op):
    return op.startswith("encr ")


# ---- independent oracle: the property, stated on the implementation's answers ---------------
def oracle(op, out):
    a = op.split(" ")
    kind, t = a[0], a[1]
    if t == "none":
        return None
    t = int(t)
    if kind == "encl" and t in SPEC:
        w = oracle(" ".join(["enc", a[1], a[2]]), out)
        return ("with limits declared: " + w) if w else None
    if kind == "enc" and t in SPEC:
        w, signed = SPEC[t]
        v = int(a[2])
        lo, hi = (-(1 << (w - 1)), (1 << (w - 1)) - 1) if signed else (0, (1 << w) - 1)
        if lo <= v <= hi:
            exp = "ok " + hx((v % (1 << w)).to_bytes(w // 8, "little"))
            if out != exp:
                return f"encode of in-range value gave {out}, CiA 301 says {exp}"
        elif out != "err":
            return f"out-of-range value {v} for {w}-bit {'signed' if signed else 'unsigned'} not rejected: {out}"
    elif kind == "dec" and t in SPEC:
        w, signed = SPEC[t]
        b = unhx(a[2])
        if len(b) != w // 8:
            if out != "err":
                return f"{len(b)} byte(s) decoded as a {w}-bit number: {out}"
        else:
            exp = f"ok int {int.from_bytes(b, 'little', signed=signed)}"
            if out != exp:
                return f"decode gave {out}, CiA 301 says {exp}"
    elif kind == "dec" and t in REALS:
        w = REALS[t][0]
        b = unhx(a[2])
        if len(b) != w // 8:
            if out != "err":
                return f"{len(b)} byte(s) decoded as REAL{w}: {out}"
        else:
            bits = int.from_bytes(b, 'little')
            exp = "ok real nan" if is_nan_pattern(t, bits) else f"ok real {bits}"
            if out != exp:
                return f"decode gave {out}, IEEE 754 says {exp}"
    elif kind == "dec" and t == BOOL:
        b = unhx(a[2])
        if len(b) != 1:
            if out != "err":
                return f"{len(b)} byte(s) decoded as BOOLEAN: {out}"
        elif b in (b"\x00", b"\x01") and out != f"ok bool {b[0]}":
            return f"BOOLEAN decode gave {out}"
    elif kind == "encb" and t == BOOL:
        if out != ("ok 01" if a[2] == "1" else "ok 00"):
            return f"BOOLEAN encode gave {out}"
    elif kind == "encf" and t in REALS:
        w = REALS[t][0]
        exp = "ok " + hx(int(a[2]).to_bytes(w // 8, "little"))
        if out != exp:
            return f"REAL{w} encode gave {out}, IEEE 754 pattern is {exp}"
    elif kind == "encr" and t in REALS:
        w, eb, mb = REALS[t]
        bits = float_to_bits(bits_to_float(int(a[2]), 11, 52), eb, mb)
        exp = "err" if bits is None else "ok " + hx(bits.to_bytes(w // 8, "little"))
        if out != exp:
            return f"REAL{w} encode of a double gave {out}, round-to-nearest-even gives {exp}"
    elif kind == "len" and (t in SPEC or t in REALS or t == BOOL):
        w = SPEC[t][0] if t in SPEC else (REALS[t][0] if t in REALS else 8)
        if out != f"ok {w}":
            return f"bit length {out}, CiA 301 says {w}"
    elif kind == "rts" and t in (VIS, UNI):
        cps = unnl(a[2])
        legal = all(c < 128 for c in cps) if t == VIS else \
            all(c < 0x10000 and not 0xD800 <= c <= 0xDFFF for c in cps)
        if legal and (not cps or cps[-1] != 0) and out != "ok str " + nl(cps):
            return f"text did not round-trip: {out}"
    elif kind == "encs" and t in (VIS, UNI):
        cps = unnl(a[2])
        if t == VIS and all(c < 128 for c in cps):
            exp = "ok " + hx(bytes(cps))
        elif t == UNI and all(c < 0x10000 and not 0xD800 <= c <= 0xDFFF for c in cps):
            exp = "ok " + hx(b"".join(c.to_bytes(2, "little") for c in cps))
        else:
            return None
        if out != exp:
            return f"string encode gave {out}, expected {exp}"
    return None


def signature(op, what):
    a = op.split(" ")
    cls = "oor" if "not rejected" in what else ("len" if "byte(s) decoded" in what else "value")
    return f"{a[0]}:{a[1]}:{cls}"


def nontrivial(op, out):
    return out.startswith("ok")


def classify(op, out):
    a = op.split(" ")
    return f"{a[0]}:{'ok' if out.startswith('ok') else 'err'}"


def shrink_candidates(op):
    a = op.split(" ")
    if a[0] == "enc":
        v = int(a[2])
        for c in (v // 2, v - 1 if v > 0 else v + 1):
            if c != v:
                yield f"enc {a[1]} {c}"
    elif a[0] == "dec" and a[2] != "-":
        b = unhx(a[2])
        yield f"dec {a[1]} {hx(b[:-1])}"
        yield f"dec {a[1]} {hx(bytes(len(b)))}"


# ---- generator ------------------------------------------------------------------------------------
def boundary_values(w):
    vals = set()
    for k in range(0, 66):
        for d in (-2, -1, 0, 1, 2):
            vals.add((1 << k) + d)
            vals.add(-(1 << k) + d)
    return sorted(vals)


def gen_ops(tier, rng):
    types = sorted(od.ODVariable.STRUCT_TYPES)
    ints = [t for t in types if t in SPEC]
    for t in types + [VIS, OCT, UNI, DOM, 0x0C, 0x20, "none"]:
        yield f"len {t}"
    # exhaustive 8/16 bit, both directions
    for t in ints:
        w, signed = SPEC[t]
        if w <= 16:
            lo = -(1 << (w - 1)) if signed else 0
            for v in range(lo - 3, lo + (1 << w) + 3):
                yield f"enc {t} {v}"
            for p in range(1 << w):
                yield f"dec {t} {hx(p.to_bytes(w // 8, 'little'))}"
    n_rand = 300 if tier == "quick" else 5000
    for t in ints:
        w, signed = SPEC[t]
        if w > 16:
            for v in boundary_values(w):
                yield f"enc {t} {v}"
            lo, hi = (-(1 << (w - 1)), (1 << (w - 1)) - 1) if signed else (0, (1 << w) - 1)
            for v in (lo, lo - 1, lo + 1, hi, hi + 1, hi - 1, lo - (1 << w), hi + (1 << w)):
                yield f"enc {t} {v}"
            for _ in range(n_rand):
                yield f"enc {t} {rng.randint(lo, hi)}"
                yield f"enc {t} {rng.choice([rng.randint(hi + 1, hi + (1 << w)), rng.randint(lo - (1 << w), lo - 1)])}"
                yield f"dec {t} {hx(rng.getrandbits(w).to_bytes(w // 8, 'little'))}"
            for pat in (0, (1 << w) - 1, 1 << (w - 1), (1 << (w - 1)) - 1, 0x80, 0x8000):
                yield f"dec {t} {hx((pat % (1 << w)).to_bytes(w // 8, 'little'))}"
    # byte strings of every length 0..9 into every type
    for t in types:
        for n in range(0, 10):
            for fill in (0x00, 0xFF, 0x80, 0x7F):
                yield f"dec {t} {hx(bytes([fill]) * n)}"
            yield f"dec {t} {hx(bytes(rng.getrandbits(8) for _ in range(n)))}"
    # booleans
    for b in range(256):
        yield f"dec {BOOL} {hx(bytes([b]))}"
    for v in (0, 1):
        yield f"encb {BOOL} {v}"
        for t in ints:
            yield f"encb {t} {v}"
    for v in (0, 1, 2, -1, 255, 256):
        yield f"enc {BOOL} {v}"
    # reals (bit patterns)
    for t, (w, eb, mb) in REALS.items():
        emax = (1 << eb) - 1
        pats = [0, 1, (1 << mb) - 1, 1 << mb, (emax - 1) << mb | ((1 << mb) - 1), emax << mb,
                (emax << mb) | (1 << (mb - 1)), ((emax >> 1) << mb), ((emax >> 1) << mb) | 1]
        pats += [p | (1 << (w - 1)) for p in pats]
        for _ in range(n_rand):
            e = rng.randrange(0, emax)          # finite
            pats.append((rng.getrandbits(1) << (w - 1)) | (e << mb) | rng.getrandbits(mb))
        for p in pats:
            if is_nan_pattern(t, p):
                yield f"dec {t} {hx(p.to_bytes(w // 8, 'little'))}"
                continue
            yield f"encf {t} {p}"
            yield f"dec {t} {hx(p.to_bytes(w // 8, 'little'))}"
    for _ in range(n_rand):
        yield f"encr 8 {rng.getrandbits(64) & ~(0x7FF << 52) | (rng.randrange(1023 - 160, 1023 + 135) << 52)}"
    for p in (0x36A0000000000000, 0x3690000000000000, 0x3690000000000001, 0x47EFFFFFF0000000,
              0x47EFFFFFEFFFFFFF, 0x47EFFFFFE0000000, 0x3FF0000010000000, 0x3FF0000030000000):
        yield f"encr 8 {p}"
    # strings
    def rstr(n, hi, special):
        out = []
        for _ in range(n):
            c = rng.choice(special) if rng.random() < 0.2 else rng.randrange(0, hi)
            out.append(c)
        return out
    for n in list(range(0, 12)) + [50, 200]:
        for _ in range(3 if tier == "quick" else 30):
            cps = rstr(n, 128, [0, 127, 32])
            yield f"encs {VIS} {nl(cps)}"
            yield f"rts {VIS} {nl(cps)}"
            cps = rstr(n, 0x10000, [0, 0xD7FF, 0xE000, 0xFFFF, 0xD800, 0xDFFF, 0x10000, 0x10FFFF, 65, 0xFEFF, 0xFFFE])
            yield f"encs {UNI} {nl(cps)}"
            yield f"rts {UNI} {nl(cps)}"
            cps = rstr(n, 300, [128, 255, 0])
            yield f"encs {VIS} {nl(cps)}"
        for _ in range(3 if tier == "quick" else 30):
            b = bytes(rng.getrandbits(8) for _ in range(n))
            yield f"dec {VIS} {hx(b)}"
            yield f"dec {UNI} {hx(b)}"
            yield f"dec {UNI} {hx(b + bytes([0, 0xD8, 0, 0xDC]))}"
            yield f"dec {OCT} {hx(b)}"
            yield f"dec {DOM} {hx(b)}"
            yield f"dec none {hx(b)}"
    # entries that declare limits: values below, between and above them encode as without limits, and values the
    # type cannot hold are rejected all the same
    for t in sorted(SPEC):
        w, signed = SPEC[t]
        lo, hi = (-(1 << (w - 1)), (1 << (w - 1)) - 1) if signed else (0, (1 << w) - 1)
        for (mn, mx) in ((lo, hi), (0, 100), (lo // 2, hi // 2), (5, 5)):
            for v in sorted({lo, hi, lo - 1, hi + 1, mn, mx, mn - 1, mx + 1, 0, rng.randint(lo, hi), 40000}):
                yield f"encl {t} {v} {mn} {mx}"
    # byte-order marks are ordinary characters of a UNICODE_STRING (utf_16_le), also in first position
    for c in (0xFEFF, 0xFFFE):
        for cps in ([c], [c, 65], [c, c, 66], [65, c], [c, 0x3042, 0x3044]):
            yield f"rts {UNI} {nl(cps)}"
            yield f"encs {UNI} {nl(cps)}"
            yield f"dec {UNI} {hx(b''.join(x.to_bytes(2, 'little') for x in cps))}"
    if tier == "thorough":
        for c in range(0, 0x11000, 1):
            yield f"rts {UNI} {c},65"
        for c in range(0, 128):
            yield f"rts {VIS} {c},65"
        for c in range(0, 0x11000, 1):
            yield f"rts {UNI} 66,{c},65"


CORPUS = [
    "enc 22 16777216",      # F1: UNSIGNED24 wrapped silently before the fix
    "enc 16 8388608",       # F1: INTEGER24
    "enc 16 -8388609",
    "enc 26 72057594037927936",
    "dec 16 -",             # IntegerN.unpack(b"") raises IndexError
]

LEVEL_TEXT = ("Lean 4 theorems, for every value / byte pattern / length and every one of the 19 fixed-size types of "
              "the generated STRUCT_TYPES table: encode = CiA 301 little-endian two's complement (or IEEE pattern), "
              "decode∘encode = id, encode∘decode = id on integer types, out-of-range rejected, wrong length rejected, "
              "ASCII / BMP text round-trips; model tied to the code by regenerated tables and an exhaustive (8/16 bit) "
              "plus boundary/seeded differential run")
LEVEL_NOTE = ("trusted: Lean kernel + propext/Classical.choice/Quot.sound; CPython struct and str codecs are modelled "
              "(Codec.lean), float<->IEEE pattern conversion is differential-only; the correspondence is only as "
              "strong as its generator (distribution recorded in the evidence)")
TECHNIQUE = "Lean 4 proof over generated tables + differential correspondence with the implementation"
