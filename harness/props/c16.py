"""C16 — the EMCY consumer's log and active list mirror the received history; producer -> consumer;
descriptions; wait()."""
import threading
import time as _realtime

import canopen
import canopen.emcy as emcy_mod
from canopen.emcy import EmcyError

ID = "C16"
PROOF_MODULES = ["CanopenProofs.C16"]
GENERATED = ["Emcy"]
THEOREMS = [
    "Canopen.C16.frame_layout",
    "Canopen.C16.log_mirrors",
    "Canopen.C16.active_since_reset",
    "Canopen.C16.reset_code_is_class_00",
    "Canopen.C16.callbacks_in_order",
    "Canopen.C16.producer_consumer",
    "Canopen.C16.producer_rejects",
    "Canopen.C16.producer_history",
    "Canopen.C16.descriptions",
    "Canopen.C16.wait_next_matching",
    "Canopen.C16.wait_sound",
    "Canopen.C16.wait_nothing_without_match",
    "Canopen.C16.wait_burst_regression",
    "Canopen.C16.runFast_spec",
    "Canopen.C16.long_history",
    "Canopen.C16.waiters_independent",
    "Canopen.C16.mwait_refines_wait",
    "Canopen.C16.mwait_no_lost_wakeup",
    "Canopen.C16.mwait_first_matching",
]
FINGERPRINT = [
    "canopen.emcy:EmcyConsumer.__init__",
    "canopen.emcy:EmcyConsumer.on_emcy",
    "canopen.emcy:EmcyConsumer.add_callback",
    "canopen.emcy:EmcyConsumer.reset",
    "canopen.emcy:EmcyConsumer.wait",
    "canopen.emcy:EmcyProducer.__init__",
    "canopen.emcy:EmcyProducer.send",
    "canopen.emcy:EmcyProducer.reset",
    "canopen.emcy:EmcyError.__init__",
    "canopen.emcy:EmcyError.get_desc",
    "canopen.emcy:EmcyError.__str__",
    "canopen.node.remote:RemoteNode.associate_network",
    "canopen.node.local:LocalNode.associate_network",
]
TRUSTED = [
    "CPython struct pack/unpack for the formats of EMCY_STRUCT modelled (CanopenModel/Emcy.lean: "
    "unsigned little-endian with range check, '<n>s' zero-padded and truncated, exact-size unpack)",
    "threading.Condition / time.time modelled by monitor semantics: EmcyConsumer.wait is a function "
    "of the sequence of wake-ups (what happened to the consumer while the waiter did not hold the "
    "lock, clock reading afterwards); with several threads in wait() the condition variable is a list of "
    "blocked threads and notify_all() marks all of them runnable (sysStep); real scheduling is exercised by "
    "the waitrt and mwait ops, not proved",
    "Spec/Cia301Emcy.lean: my reading of CiA 301 7.2.7 (frame layout, error code classes)",
]
ASSUMPTIONS = [
    "callbacks do not raise and do not call back into the consumer",
    "timestamps and clock readings are the integers the harness injects",
    "EmcyConsumer.reset() racing with a pending wait() is modelled (missed entry) "
    "but lies outside the property's quantifier (sequences of frames) and is not judged by the oracle",
]
RULE = ("ops hist (frame / notify / add_callback / reset histories on a RemoteNode's consumer, all "
        "histories of length <= 3 over a 6-letter alphabet plus seeded ones up to 400 events, codes "
        "biased to class boundaries and reset codes, registers 0..255, malformed frames of 0..12 "
        "bytes), wait (scripted Condition and clock: wake-ups with 0..3 events each, clock below / at / "
        "above the deadline, with and without code filter, all scripts of <= 3 wake-ups over a small "
        "alphabet), waitrt (real threading.Condition, feeder thread), mwait (k = 1..4 threads blocked in wait() "
        "on the real Condition before the frames arrive, same / different / no code filters, all filter tuples "
        "for k <= 3 over 4 filters x 5 scripts plus seeded ones, time-outs emulated by a clock jump), long "
        "(digested histories with run-length tokens R:n:code0:cstep:reg0:ts0: n at, below and above 256, 1000, "
        "1024, 4096, 10000 (thorough: 65535, 65536, 131073, 300000), one run > 70000 frames on every run, "
        "callbacks / error resets / reset() / malformed frames in between), wait / waitrt / mwait entered after "
        "such histories and while the history grows past those sizes, send / preset / pc (producer "
        "frame and producer -> bus -> consumer, codes -1..65536, registers -1..256, data 0..8 bytes), "
        "desc (quick: every high byte x 16 low bytes + seeded; thorough: all 65536 codes); "
        "non-trivial = at least one entry was logged / a frame was sent / an entry was handed to the "
        "waiter / a non-empty description was returned")

PAD = 5


def hx(b):
    return bytes(b).hex() if len(b) else "-"


def unhx(s):
    return b"" if s == "-" else bytes.fromhex(s)


def nl(xs):
    xs = list(xs)
    return ",".join(str(x) for x in xs) if xs else "-"


def show_list(xs):
    xs = list(xs)
    return ",".join(xs) if xs else "-"


def canon_ts(ts):
    if isinstance(ts, float) and ts == int(ts):
        return str(int(ts))
    return str(ts)


def show_entry(e):
    if e is None:
        return "none"
    if not isinstance(e, EmcyError):
        return f"other:{type(e).__name__}"
    if not isinstance(e.data, (bytes, bytearray)):
        return f"{e.code}/{e.register}/nonbytes:{type(e.data).__name__}/{canon_ts(e.timestamp)}"
    return f"{e.code}/{e.register}/{hx(e.data)}/{canon_ts(e.timestamp)}"


# ---- implementation runners ------------------------------------------------------------------
class CapBus:
    """what Network.send_message needs from a python-can bus"""
    channel_info = "capture"

    def __init__(self, on_send=None):
        self.sent = []
        self.on_send = on_send

    def send(self, msg, timeout=None):
        self.sent.append(msg)
        if self.on_send:
            self.on_send(msg)

    def shutdown(self):
        pass


def mk_consumer(nid):
    net = canopen.Network()
    node = canopen.RemoteNode(nid, canopen.ObjectDictionary())
    net.add_node(node)
    return net, node.emcy


def rep_frame(code0, cstep, reg0, i):
    """frame i of a run-length token (the op syntax, see tok_events)"""
    code = (code0 + i * cstep) % 65536
    return bytes([code & 0xFF, code >> 8, (reg0 + i) % 256, i & 0xFF, (i >> 8) & 0xFF, (i >> 16) & 0xFF,
                  (i >> 24) & 0xFF, (7 * i + 3) % 256])


def tok_events(tok):
    """the events one token of a history stands for, as tuples ('f', data, ts) | ('n', can_id, data, ts) |
    ('c', k) | ('r',).  `R:<n>:<code0>:<cstep>:<reg0>:<ts0>` is a run of n frames handed to on_emcy: frame i has
    code (code0 + i*cstep) mod 2^16, register (reg0 + i) mod 256, manufacturer bytes i (32 bit LSB first) and
    (7*i + 3) mod 256, time stamp ts0 + i."""
    a = tok.split(":")
    if a[0] == "f":
        yield ("f", unhx(a[1]), int(a[2]))
    elif a[0] == "n":
        yield ("n", int(a[1]), unhx(a[2]), int(a[3]))
    elif a[0] == "c":
        yield ("c", int(a[1]))
    elif a[0] == "r" and len(a) == 1:
        yield ("r",)
    elif a[0] == "R":
        n, code0, cstep, reg0, ts0 = (int(x) for x in a[1:6])
        for i in range(n):
            yield ("f", rep_frame(code0, cstep, reg0, i), ts0 + i)
    else:
        raise ValueError("bad event token " + tok)


def events(toks):
    for tok in toks:
        yield from tok_events(tok)


def apply_evt(net, cons, nid, evt, inv):
    """run one event against the real objects; returns True when it raised"""
    try:
        if evt[0] == "f":
            cons.on_emcy(0x80 + nid, evt[1], evt[2])
        elif evt[0] == "n":
            net.notify(evt[1], bytearray(evt[2]), float(evt[3]))
        elif evt[0] == "c":
            k = evt[1]
            cons.add_callback(lambda e: inv.append((k, e)))
        else:
            cons.reset()
    except Exception:
        return True
    return False


class TooSlow(Exception):
    """a long history exceeded its time budget: the operation is given up, not judged (speed is no part of C16)"""


# A history of n frames normally costs ~15 us per frame.  An implementation whose cost per frame grows with the
# history (say a linear search in the active list) would turn the long-history operations into hours; every
# operation therefore has a budget of 3 s + 250 us per frame of its run-length tokens, and once two operations
# have run out of it, operations with more than SLOW_SKIP frames are not started any more.  Such operations
# answer "too-slow", are not judged by the oracle and not compared with the model (model_skips).
SLOW_OPS = set()
SLOW_SKIP = 1500
_budget = {"limit": None}


def run_frames(op):
    return sum(int(t.split(":")[1]) for part in op.split(" ") for t in part.split("@")[-1].split("+")
               if t.startswith("R:"))


def tick(i):
    if i & 255 == 0 and _budget["limit"] is not None and _realtime.monotonic() > _budget["limit"]:
        raise TooSlow()


def apply_ev(net, cons, nid, tok, inv):
    """run one token (all its events); returns True when one of them raised"""
    raised = False
    for i, evt in enumerate(tok_events(tok)):
        tick(i)
        raised = apply_evt(net, cons, nid, evt, inv) or raised
    return raised


def run_hist(a):
    nid = int(a[1])
    net, cons = mk_consumer(nid)
    inv, raised, alen = [], [], []
    for i, evt in enumerate(events(a[2:])):
        if apply_evt(net, cons, nid, evt, inv):
            raised.append(i)
        alen.append(len(cons.active))
    return (f"log={show_list(show_entry(e) for e in cons.log)};"
            f"active={show_list(show_entry(e) for e in cons.active)};"
            f"inv={show_list(f'{k}@{show_entry(e)}' for k, e in inv)};"
            f"raised={nl(raised)};alen={nl(alen)}")


DIG_M = (1 << 61) - 1
DIG_P = 1000003


def digest(nums):
    h = 0
    for x in nums:
        h = (h * DIG_P + x + 1) % DIG_M
    return h


def num_of(code, reg, data, ts):
    return ((ts * (1 << 40) + int.from_bytes(data, "little")) * 256 + reg) * 65536 + code


def entry_num(e):
    """an EmcyError as one number; anything that is not a well-formed entry gets a number no entry has"""
    ts = getattr(e, "timestamp", None)
    if isinstance(ts, float) and ts == int(ts):
        ts = int(ts)
    if (isinstance(e, EmcyError) and isinstance(e.data, (bytes, bytearray)) and len(e.data) <= PAD
            and type(e.code) is int and type(e.register) is int and type(ts) is int
            and 0 <= e.code < 65536 and 0 <= e.register < 256 and ts >= 0):
        return num_of(e.code, e.register, bytes(e.data), ts)
    return (1 << 200) + int.from_bytes(show_entry(e).encode(), "little")


def show_ends(xs, show):
    xs = list(xs)
    return f"{show_list(show(e) for e in xs[:2])}..{show_list(show(e) for e in xs[max(0, len(xs) - 2):])}"


def long_summary(log, active, inv, raised, alen, num0, show):
    memo = {}

    def num(e):         # an entry sits in the log, in the active list and in one invocation per callback
        r = memo.get(id(e))
        if r is None:
            r = memo[id(e)] = num0(e)
        return r

    return (f"n={len(log)};logd={digest(num(e) for e in log)};lends={show_ends(log, show)};"
            f"an={len(active)};actd={digest(num(e) for e in active)};aends={show_ends(active, show)};"
            f"invn={len(inv)};invd={digest(num(e) * (1 << 32) + k for k, e in inv)};"
            f"raised={raised};alend={digest(alen)}")


def run_long(a):
    """a history too long to print: lengths, digests and both ends of log / active / invocations"""
    nid = int(a[1])
    net, cons = mk_consumer(nid)
    inv, raised, alen = [], 0, []
    for i, evt in enumerate(events(a[2:])):
        tick(i)
        if apply_evt(net, cons, nid, evt, inv):
            raised += 1
        alen.append(len(cons.active))
    return long_summary(cons.log, cons.active, inv, raised, alen, entry_num, show_entry)


def split_slash(toks):
    if "/" in toks:
        i = toks.index("/")
        return toks[:i], toks[i + 1:]
    return toks, []


def parse_wake(tok):
    w, now, evs = tok.split("@")
    assert w == "w"
    return int(now), ([] if evs == "-" else evs.split("+"))


class FakeClock:
    """stands in for the `time` module inside canopen.emcy"""

    def __init__(self, now):
        self.now = float(now)

    def time(self):
        return self.now


class ScriptedCondition:
    """Monitor with a scripted environment: every `wait` releases the monitor, lets the script
    deliver the next batch of events to the consumer, sets the clock, and returns."""

    def __init__(self, script, clock, deliver):
        self.script = list(script)
        self.clock = clock
        self.deliver = deliver
        self.waits = 0
        self.depth = 0

    def __enter__(self):
        self.depth += 1
        return self

    def __exit__(self, *exc):
        self.depth -= 1
        return False

    def notify_all(self):
        pass

    def notify(self, n=1):
        pass

    def wait(self, timeout=None):
        self.waits += 1
        if self.script:
            now, evs = self.script.pop(0)
            for tok in evs:
                self.deliver(tok)
            self.clock.now = float(now)
            return bool(evs)
        return False


def run_wait(a):
    nid = int(a[1])
    filt = None if a[2] == "none" else int(a[2])
    timeout, t0 = int(a[3]), int(a[4])
    pre, wakes = split_slash(a[5:])
    net, cons = mk_consumer(nid)
    inv = []
    for tok in pre:
        apply_ev(net, cons, nid, tok, inv)
    clock = FakeClock(t0)
    cond = ScriptedCondition([parse_wake(w) for w in wakes], clock,
                             lambda tok: apply_ev(net, cons, nid, tok, inv))
    cons.emcy_received = cond
    saved = emcy_mod.time
    emcy_mod.time = clock
    try:
        try:
            r = cons.wait(filt, float(timeout)) if filt is not None else cons.wait(timeout=float(timeout))
            res = show_entry(r)
        except TooSlow:
            raise
        except Exception:
            res = "raised"
    finally:
        emcy_mod.time = saved
    return f"res={res};waits={cond.waits};log={len(cons.log)}"


T_END = 10 ** 9


def run_waitrt(a):
    """real threading.Condition: the waiter runs in its own thread; the feeder (this thread)
    delivers each batch, holding the consumer's lock, once the waiter sits in Condition.wait.
    The deadline logic sees a frozen clock; Condition.wait uses real time.  A script with a short real
    time-out (< 1 s; only for scripts that cannot hand anything over) is ended by that time-out; with a long one
    the time-out is never awaited: once the waiter is blocked again after the last batch the clock jumps past
    the deadline and the condition wait is made to return, which is what a time-out does (no race with the
    machine's load, and a lost wake-up costs no real time)."""
    nid = int(a[1])
    filt = None if a[2] == "none" else int(a[2])
    # scripts that must end in a time-out of the condition variable get a short real time-out,
    # scripts that end with a hand-over a long one (never reached unless a wake-up is lost)
    real_timeout = int(a[3]) / 1000.0
    pre, wakes = split_slash(a[4:])
    script = [parse_wake(w) for w in wakes]
    net, cons = mk_consumer(nid)
    inv = []
    for tok in pre:
        apply_ev(net, cons, nid, tok, inv)
    saved = emcy_mod.time
    clock = FakeClock(0)
    emcy_mod.time = clock
    box = {}

    def waiter():
        try:
            box["r"] = show_entry(cons.wait(filt, real_timeout))
        except Exception:
            box["r"] = "raised"

    th = threading.Thread(target=waiter, daemon=True)

    def settle():
        limit = _realtime.monotonic() + 10.0
        while th.is_alive() and "r" not in box and not cons.emcy_received._waiters \
                and _realtime.monotonic() < limit:
            _realtime.sleep(0.0001)

    try:
        th.start()
        for _, evs in script:
            settle()
            with cons.emcy_received:
                for tok in evs:
                    apply_ev(net, cons, nid, tok, inv)
        if real_timeout >= 1.0:
            settle()
            with cons.emcy_received:
                clock.now = float(T_END)
                cons.emcy_received.notify_all()
        th.join(20.0)
    except TooSlow:
        with cons.emcy_received:        # let the waiter go before giving up
            clock.now = float(T_END)
            cons.emcy_received.notify_all()
        raise
    finally:
        emcy_mod.time = saved
    return f"res={box.get('r', 'hung')};log={len(cons.log)}"


def parse_spec(s):
    f, t = s.split("~")
    return (None if f == "none" else int(f)), int(t)


def run_mwait(a):
    """k threads block in wait() on the real threading.Condition (entered one after the other, clock frozen at
    t0); then every batch is delivered by this thread while it holds the consumer's lock, with the clock set to
    the batch's time, once every thread that has not returned is blocked in Condition.wait; finally the clock
    jumps past every deadline and all condition waits are made to return (what a time-out does).  No real
    time-out is ever reached unless the implementation loses a thread."""
    nid, t0 = int(a[1]), int(a[2])
    specs = [parse_spec(x) for x in a[3].split("|")]
    pre, wakes = split_slash(a[4:])
    script = [parse_wake(w) for w in wakes]
    net, cons = mk_consumer(nid)
    inv = []
    for tok in pre:
        apply_ev(net, cons, nid, tok, inv)
    clock = FakeClock(t0)
    saved = emcy_mod.time
    emcy_mod.time = clock
    box = {}
    k = len(specs)

    def waiter(i, filt, tmo):
        try:
            r = cons.wait(filt, float(tmo)) if filt is not None else cons.wait(timeout=float(tmo))
            box[i] = show_entry(r)
        except Exception:
            box[i] = "raised"

    threads = [threading.Thread(target=waiter, args=(i, f, t), daemon=True) for i, (f, t) in enumerate(specs)]

    def settle(started):
        """until every started thread that has not returned sits in Condition.wait"""
        limit = _realtime.monotonic() + 10.0
        spins = 0
        while True:
            pending = sum(1 for i in range(started) if i not in box)
            if len(getattr(cons.emcy_received, "_waiters", ())) >= pending:
                return
            spins += 1
            if spins % 64 == 0 and _realtime.monotonic() > limit:
                return
            _realtime.sleep(0 if spins < 200 else 0.0001)

    try:
        for i, th in enumerate(threads):
            th.start()
            settle(i + 1)
        for now, evs in script:
            settle(k)
            with cons.emcy_received:
                clock.now = float(now)
                for tok in evs:
                    apply_ev(net, cons, nid, tok, inv)
        settle(k)
        with cons.emcy_received:
            clock.now = float(t0 + T_END)
            cons.emcy_received.notify_all()
        limit = _realtime.monotonic() + 30.0
        for th in threads:
            th.join(max(0.0, limit - _realtime.monotonic()))
    except TooSlow:
        with cons.emcy_received:        # let the waiters go before giving up
            clock.now = float(t0 + T_END)
            cons.emcy_received.notify_all()
        raise
    finally:
        emcy_mod.time = saved
    return f"res={'|'.join(box.get(i, 'hung') for i in range(k))};log={len(cons.log)}"


def mk_producer(nid, on_send=None):
    bus = CapBus(on_send)
    net = canopen.Network(bus)
    node = net.create_node(nid, canopen.ObjectDictionary())
    return net, node, bus


def show_msg(msg):
    extra = ""
    if msg.is_extended_id or msg.is_remote_frame:
        extra = ":flags"
    return f"{msg.arbitration_id}:{hx(msg.data)}{extra}"


def run_send(a):
    nid = int(a[1])
    net, node, bus = mk_producer(nid)
    try:
        if a[0] == "send":
            node.emcy.send(int(a[2]), int(a[3]), unhx(a[4]))
        else:
            node.emcy.reset(int(a[2]), unhx(a[3]))
    except Exception:
        return "err" if not bus.sent else "err-after-send"
    if len(bus.sent) != 1:
        return f"sent-{len(bus.sent)}"
    return "ok " + show_msg(bus.sent[0])


def run_pc(a):
    lnid, rnid, ts0 = int(a[1]), int(a[2]), int(a[3])
    mnet, cons = mk_consumer(rnid)
    frames = []

    def on_send(msg):
        ts = float(ts0 + len(frames))
        frames.append(msg)
        # like a CAN bus: every other network sees a fresh copy of the frame
        mnet.notify(msg.arbitration_id, bytearray(msg.data), ts)

    snet, node, bus = mk_producer(lnid, on_send)
    raised = []
    for i, tok in enumerate(a[4:]):
        c = tok.split(":")
        try:
            if c[0] == "s":
                node.emcy.send(int(c[1]), int(c[2]), unhx(c[3]))
            elif c[0] == "r":
                node.emcy.reset(int(c[1]), unhx(c[2]))
            else:
                return "bad-op"
        except Exception:
            raised.append(i)
    return (f"frames={show_list(hx(m.data) for m in frames)};"
            f"log={show_list(show_entry(e) for e in cons.log)};"
            f"active={show_list(show_entry(e) for e in cons.active)};raised={nl(raised)}")


def run_desc(a):
    code = int(a[1])
    e = EmcyError(code, 0, b"\0" * 5, 0)
    return f"ok {e.get_desc()}|{e}"


def run_impl(op):
    n = run_frames(op)
    if n == 0:
        return run_impl_1(op)
    if len(SLOW_OPS) >= 2 and n > SLOW_SKIP and op not in SLOW_OPS:
        SLOW_OPS.add(op)
    if op in SLOW_OPS:
        return "too-slow"
    _budget["limit"] = _realtime.monotonic() + 3.0 + n * 250e-6
    try:
        return run_impl_1(op)
    except TooSlow:
        SLOW_OPS.add(op)
        return "too-slow"
    finally:
        _budget["limit"] = None


def model_skips(op):
    return op in SLOW_OPS


def run_impl_1(op):
    a = op.split(" ")
    k = a[0]
    if k == "hist":
        return run_hist(a)
    if k == "long":
        return run_long(a)
    if k == "mwait":
        return run_mwait(a)
    if k == "wait":
        return run_wait(a)
    if k == "waitrt":
        return run_waitrt(a)
    if k in ("send", "preset"):
        return run_send(a)
    if k == "pc":
        return run_pc(a)
    if k == "desc":
        return run_desc(a)
    return "bad-op"


def canon_model(op, out):
    return out


# ---- independent oracle: the property, stated on the implementation's answers -----------------
# CiA 301 emergency error code classes by high byte (written from the standard, not from the code)
def spec_class(code):
    hb = (code >> 8) & 0xFF
    if hb == 0x00:
        return "Error Reset / No Error"
    if hb == 0x10:
        return "Generic Error"
    if 0x20 <= hb <= 0x2F:
        return "Current"
    if 0x30 <= hb <= 0x3F:
        return "Voltage"
    if 0x40 <= hb <= 0x4F:
        return "Temperature"
    if hb == 0x50:
        return "Device Hardware"
    if 0x60 <= hb <= 0x6F:
        return "Device Software"
    if hb == 0x70:
        return "Additional Modules"
    if 0x80 <= hb <= 0x8F:
        return "Monitoring"
    if hb == 0x90:
        return "External Error"
    if hb == 0xF0:
        return "Additional Functions"
    if hb == 0xFF:
        return "Device Specific"
    return ""


def spec_entry(data, ts):
    """the entry an 8-byte emergency frame denotes (CiA 301 7.2.7.3); None for a non-EMCY frame"""
    if len(data) != 8:
        return None
    return (data[0] | (data[1] << 8), data[2], bytes(data[3:8]), ts)


def fmt_entry(t):
    return f"{t[0]}/{t[1]}/{hx(t[2])}/{t[3]}"


def is_reset_code(code):
    return (code >> 8) == 0 if code < 0x10000 else (code & 0xFF00) == 0


class RefConsumer:
    """the property's words: log = every frame in arrival order; active = those since the last
    error-reset frame; every registered callback once per frame, in order"""

    def __init__(self, nid):
        self.nid = nid
        self.log, self.active, self.cbs, self.inv = [], [], [], []
        self.alen = []

    def ev(self, a):
        """one event tuple (see tok_events); returns the entry it delivers, if any"""
        ent = None
        if a[0] == "f":
            ent = spec_entry(a[1], a[2])
        elif a[0] == "n":
            if a[1] == 0x80 + self.nid:
                ent = spec_entry(a[2], a[3])
        elif a[0] == "c":
            self.cbs.append(a[1])
        elif a[0] == "r":
            self.log, self.active = [], []
        if ent is not None:
            self.log.append(ent)
            if is_reset_code(ent[0]):
                self.active = []
            else:
                self.active.append(ent)
            for k in self.cbs:
                self.inv.append((k, ent))
        self.alen.append(len(self.active))
        return ent


def fields(out):
    return dict(kv.split("=", 1) for kv in out.split(";"))


def oracle_hist(a, out):
    ref = RefConsumer(int(a[1]))
    for evt in events(a[2:]):
        ref.ev(evt)
    try:
        f = fields(out)
    except Exception:
        return f"unreadable answer {out!r}"
    exp_log = show_list(fmt_entry(e) for e in ref.log)
    if f.get("log") != exp_log:
        return f"log is {f.get('log')}, the received history is {exp_log}"
    exp_act = show_list(fmt_entry(e) for e in ref.active)
    if f.get("active") != exp_act:
        return f"active list is {f.get('active')}, entries since the last error reset are {exp_act}"
    if f.get("alen") != nl(ref.alen):
        return f"active list sizes along the history are {f.get('alen')}, expected {nl(ref.alen)}"
    exp_inv = show_list(f"{k}@{fmt_entry(e)}" for k, e in ref.inv)
    if f.get("inv") != exp_inv:
        return f"callback invocations are {f.get('inv')}, expected {exp_inv}"
    return None


def oracle_long(a, out):
    """the same judgement as oracle_hist on the digested answer"""
    ref = RefConsumer(int(a[1]))
    nframes = 0
    for evt in events(a[2:]):
        if ref.ev(evt) is not None:
            nframes += 1
    try:
        f = fields(out)
    except Exception:
        return f"unreadable answer {out!r}"
    exp = fields(long_summary(ref.log, ref.active, ref.inv, 0, ref.alen, lambda e: num_of(*e), fmt_entry))
    if f.get("n") != exp["n"]:
        return (f"log holds {f.get('n')} entries ({f.get('lends')}) after a history in which {nframes} frames were "
                f"received, one entry per frame (since the last reset() call) gives {exp['n']} ({exp['lends']})")
    if f.get("logd") != exp["logd"] or f.get("lends") != exp["lends"]:
        return (f"log ({f.get('n')} entries, {f.get('lends')}, digest {f.get('logd')}) is not the received "
                f"history ({exp['lends']}, digest {exp['logd']})")
    if (f.get("an"), f.get("actd"), f.get("aends")) != (exp["an"], exp["actd"], exp["aends"]):
        return (f"active list holds {f.get('an')} entries ({f.get('aends')}, digest {f.get('actd')}), the entries "
                f"since the last error reset are {exp['an']} ({exp['aends']}, digest {exp['actd']})")
    if f.get("alend") != exp["alend"]:
        return f"active list sizes along the history have digest {f.get('alend')}, expected {exp['alend']}"
    if (f.get("invn"), f.get("invd")) != (exp["invn"], exp["invd"]):
        return (f"callback invocations: {f.get('invn')} (digest {f.get('invd')}), once per frame and registered "
                f"callback in order gives {exp['invn']} (digest {exp['invd']})")
    return None


def wait_expectation(nid, filt, timeout, t0, pre, wakes):
    """(expected result, burst): the next matching entry or nothing on time-out.  A wake-up with
    nothing new is a time-out of the condition variable; an entry that arrives after the deadline
    is not handed over.  `burst` = the expected entry is not the last one of its batch."""
    ref = RefConsumer(nid)
    for evt in events(pre):
        ref.ev(evt)
    deadline = t0 + timeout
    for now, evs in wakes:
        batch = [e for e in (ref.ev(evt) for evt in events(evs)) if e is not None]
        if not batch:
            return "none", False, len(ref.log)
        if now > deadline:
            return "none", False, len(ref.log)
        for i, e in enumerate(batch):
            if filt is None or e[0] == filt:
                return fmt_entry(e), i != len(batch) - 1, len(ref.log)
    return "none", False, len(ref.log)


def has_api_reset(wakes):
    return any(tok == "r" for _, evs in wakes for tok in evs)


def oracle_wait(a, out):
    nid = int(a[1])
    filt = None if a[2] == "none" else int(a[2])
    if a[0] == "waitrt":
        timeout, t0, rest = 0, 0, a[4:]
    else:
        timeout, t0, rest = int(a[3]), int(a[4]), a[5:]
    pre, wakes = split_slash(rest)
    wakes = [parse_wake(w) for w in wakes]
    if has_api_reset(wakes):
        return None     # reset() racing with wait(): outside the property's quantifier
    exp, burst, _ = wait_expectation(nid, filt, timeout, t0, pre, wakes)
    try:
        res = fields(out)["res"]
    except Exception:
        return f"unreadable answer {out!r}"
    if res != exp:
        if burst:
            return (f"wait handed {res} although the next matching entry {exp} had arrived "
                    f"(it was followed by another frame before the waiter ran: burst)")
        return f"wait handed {res}, the next matching entry / time-out rule gives {exp}"
    return None


def mwait_expectation(nid, specs, t0, pre, wakes):
    """per waiting thread: the first entry matching its filter among those received after it started to wait,
    provided the thread learns of it by its deadline; nothing otherwise.  What the other threads wait for does
    not enter.  A batch in which no frame is received wakes nobody."""
    ref = RefConsumer(nid)
    for evt in events(pre):
        ref.ev(evt)
    batches = []
    for now, evs in wakes:
        batches.append((now, [e for e in (ref.ev(evt) for evt in events(evs)) if e is not None]))
    exp = []
    for filt, tmo in specs:
        r = "none"
        for now, ents in batches:
            if not ents:
                continue
            if now > t0 + tmo:
                break
            hit = [e for e in ents if filt is None or e[0] == filt]
            if hit:
                r = fmt_entry(hit[0])
                break
        exp.append(r)
    return exp


def oracle_mwait(a, out):
    nid, t0 = int(a[1]), int(a[2])
    specs = [parse_spec(x) for x in a[3].split("|")]
    pre, wakes = split_slash(a[4:])
    wakes = [parse_wake(w) for w in wakes]
    if has_api_reset(wakes):
        return None     # reset() racing with wait(): outside the property's quantifier
    exp = mwait_expectation(nid, specs, t0, pre, wakes)
    try:
        res = fields(out)["res"].split("|")
    except Exception:
        return f"unreadable answer {out!r}"
    if len(res) != len(exp):
        return f"unreadable answer {out!r}"
    for i, (r, e) in enumerate(zip(res, exp)):
        if r != e:
            filt = "any code" if specs[i][0] is None else f"code {specs[i][0]}"
            if r == "none" and len(specs) > 1:
                return (f"thread {i} of {len(specs)} threads in wait() (waiting for {filt}) was handed nothing "
                        f"although {e} was received while it waited (starved); all results: {'|'.join(res)}, "
                        f"expected {'|'.join(exp)}")
            return (f"thread {i} of {len(specs)} in wait() (waiting for {filt}) was handed {r}, the next matching "
                    f"entry / time-out rule gives {e}; all results: {'|'.join(res)}, expected {'|'.join(exp)}")
    return None


def in_range(code, reg):
    return 0 <= code <= 0xFFFF and 0 <= reg <= 0xFF


def spec_frame(code, reg, data):
    return bytes([code & 0xFF, code >> 8, reg]) + data + bytes(PAD - len(data))


def oracle_send(a, out):
    nid = int(a[1])
    if a[0] == "send":
        code, reg, data = int(a[2]), int(a[3]), unhx(a[4])
    else:
        code, reg, data = 0, int(a[2]), unhx(a[3])
    if not in_range(code, reg):
        if out.startswith("ok"):
            return f"code {code} / register {reg} cannot be carried by an EMCY frame but {out} was sent"
        return None
    if len(data) > PAD:
        return None         # outside the property's quantifier (data of 0..5 bytes)
    exp = f"ok {0x80 + nid}:{hx(spec_frame(code, reg, data))}"
    if out != exp:
        return f"producer emitted {out}, CiA 301 says {exp}"
    return None


def oracle_pc(a, out):
    lnid, rnid, ts0 = int(a[1]), int(a[2]), int(a[3])
    log, active, n = [], [], 0
    judged = True
    for tok in a[4:]:
        c = tok.split(":")
        if c[0] == "s":
            code, reg, data = int(c[1]), int(c[2]), unhx(c[3])
        else:
            code, reg, data = 0, int(c[1]), unhx(c[2])
        if not in_range(code, reg):
            continue            # must raise and send nothing: then nothing is logged either
        if len(data) > PAD:
            judged = False      # truncation of over-long data: not claimed
            data = data[:PAD]
        ent = (code, reg, data + bytes(PAD - len(data)), ts0 + n)
        n += 1
        if lnid == rnid:
            log.append(ent)
            if code >> 8 == 0:
                active = []
            else:
                active.append(ent)
    if not judged:
        return None
    try:
        f = fields(out)
    except Exception:
        return f"unreadable answer {out!r}"
    exp_log = show_list(fmt_entry(e) for e in log)
    if f.get("log") != exp_log:
        return f"consumer decoded {f.get('log')}, the producer was given {exp_log}"
    exp_act = show_list(fmt_entry(e) for e in active)
    if f.get("active") != exp_act:
        return f"consumer's active list is {f.get('active')}, expected {exp_act}"
    return None


def oracle_desc(a, out):
    code = int(a[1])
    d = spec_class(code)
    exp = f"ok {d}|Code 0x{code:04X}" + (f", {d}" if d else "")
    if out != exp:
        return f"code 0x{code:04X} is described as {out!r}, its CiA 301 class is {exp!r}"
    return None


def oracle(op, out):
    a = op.split(" ")
    k = a[0]
    if out.startswith("HARNESS-RAISED"):
        return f"the harness could not drive the implementation: {out}"
    if out == "too-slow":
        return None         # given up for lack of time, see SLOW_OPS
    if k == "hist":
        return oracle_hist(a, out)
    if k == "long":
        return oracle_long(a, out)
    if k == "mwait":
        return oracle_mwait(a, out)
    if k in ("wait", "waitrt"):
        return oracle_wait(a, out)
    if k in ("send", "preset"):
        return oracle_send(a, out)
    if k == "pc":
        return oracle_pc(a, out)
    if k == "desc":
        return oracle_desc(a, out)
    return None


def signature(op, what):
    k = op.split(" ")[0]
    if k in ("wait", "waitrt"):
        return "wait:burst-entry-not-last" if "burst)" in what else "wait:result"
    if k == "mwait":
        return "mwait:starved" if "(starved)" in what else "mwait:result"
    if k == "long":
        if what.startswith("log"):
            return "long:log"
        if what.startswith("active list"):
            return "long:active"
        if what.startswith("callback"):
            return "long:callbacks"
        return "long:other"
    if k == "hist":
        if what.startswith("log is"):
            return "hist:log"
        if what.startswith("active list"):
            return "hist:active"
        if what.startswith("callback"):
            return "hist:callbacks"
        return "hist:other"
    if k in ("send", "preset"):
        return f"{k}:{'range' if 'cannot be carried' in what else 'frame'}"
    if k == "pc":
        return "pc:active" if "active list" in what else "pc:log"
    if k == "desc":
        return f"desc:{(int(op.split(' ')[1]) >> 12) & 0xF:x}"
    return k


def nontrivial(op, out):
    k = op.split(" ")[0]
    if out == "too-slow":
        return False
    if k in ("hist", "pc"):
        return ";" in out and fields(out).get("log", "-") != "-"
    if k == "long":
        return out.startswith("n=") and not out.startswith("n=0;")
    if k == "mwait":
        return out.startswith("res=") and any(r not in ("none", "raised", "hung")
                                              for r in fields(out)["res"].split("|"))
    if k in ("wait", "waitrt"):
        return out.startswith("res=") and not out.startswith(("res=none", "res=raised", "res=hung"))
    if k in ("send", "preset"):
        return out.startswith("ok")
    if k == "desc":
        return out.startswith("ok ") and not out.startswith("ok |")
    return False


def classify(op, out):
    a = op.split(" ")
    k = a[0]
    if out == "too-slow":
        return f"{k}:given-up-too-slow"
    if k == "hist":
        n = len(a) - 2
        size = "0" if n == 0 else "1-3" if n <= 3 else "4-40" if n <= 40 else "41+"
        return f"hist:len{size}"
    if k == "long":
        n = int(fields(out).get("n", "0")) if out.startswith("n=") else -1
        size = "?" if n < 0 else "0-999" if n < 1000 else "1000-9999" if n < 10000 else "10000-65535" \
            if n < 65536 else "65536+"
        return f"long:log{size}"
    if k == "mwait":
        res = fields(out).get("res", "?").split("|") if out.startswith("res=") else ["?"]
        handed = sum(1 for r in res if r not in ("none", "raised", "hung", "?"))
        return f"mwait:k{len(a[3].split('|'))}:handed{handed}"
    if k in ("wait", "waitrt"):
        r = fields(out).get("res", "?") if out.startswith("res=") else "?"
        r = r if r in ("none", "raised", "hung", "?") else "entry"
        return f"{k}:{'filter' if a[2] != 'none' else 'nofilter'}:{r}"
    if k in ("send", "preset"):
        return f"{k}:{'ok' if out.startswith('ok') else 'err'}"
    if k == "desc":
        return "desc:" + ("empty" if out.startswith("ok |") else "class")
    return k


def smaller_toks(tok):
    """shorter runs for a run-length token: n/2, 3n/4, 7n/8, … n-1"""
    a = tok.split(":")
    if a[0] != "R":
        return
    n = int(a[1])
    step, seen = n // 2, set()
    while step >= 1:
        m = n - step
        if m >= 1 and m not in seen:
            seen.add(m)
            yield ":".join(["R", str(m)] + a[2:])
        step //= 2


def smaller_lists(toks):
    """token lists with one token removed, then with one run shortened"""
    for i in range(len(toks)):
        yield toks[:i] + toks[i + 1:]
    for i, tok in enumerate(toks):
        for t2 in smaller_toks(tok):
            yield toks[:i] + [t2] + toks[i + 1:]


def smaller_wakes(wakes):
    for i in range(len(wakes)):
        yield wakes[:i] + wakes[i + 1:]
    for i, w in enumerate(wakes):
        now, evs = parse_wake(w)
        for rest in smaller_lists(evs):
            yield wakes[:i] + [f"w@{now}@{'+'.join(rest) if rest else '-'}"] + wakes[i + 1:]


_SHRINK = {"t0": None}
SHRINK_BUDGET_S = 60.0


def shrink_candidates(op):
    a = op.split(" ")
    k = a[0]
    if run_frames(op) > 0:
        # every candidate of a long history costs its length: all such shrinking together gets a minute, after
        # that the input is reported as it stands
        if _SHRINK["t0"] is None:
            _SHRINK["t0"] = _realtime.monotonic()
        if _realtime.monotonic() - _SHRINK["t0"] > SHRINK_BUDGET_S:
            return
    if k in ("hist", "long"):
        for evs in smaller_lists(a[2:]):
            yield " ".join(a[:2] + evs)
    elif k == "mwait":
        specs = a[3].split("|")
        pre, wakes = split_slash(a[4:])
        if len(specs) > 1:
            for i in range(len(specs)):
                yield " ".join(a[:3] + ["|".join(specs[:i] + specs[i + 1:])] + pre + ["/"] + wakes)
        for p2 in smaller_lists(pre):
            yield " ".join(a[:4] + p2 + ["/"] + wakes)
        for w2 in smaller_wakes(wakes):
            yield " ".join(a[:4] + pre + ["/"] + w2)
    elif k == "waitrt":
        pre, wakes = split_slash(a[4:])
        for p2 in smaller_lists(pre):
            yield " ".join(a[:4] + p2 + ["/"] + wakes)
        for w2 in smaller_wakes(wakes):
            yield " ".join(a[:4] + pre + ["/"] + w2)
    elif k == "pc":
        calls = a[4:]
        for i in range(len(calls)):
            yield " ".join(a[:4] + calls[:i] + calls[i + 1:])
    elif k == "wait":
        pre, wakes = split_slash(a[5:])
        for p2 in smaller_lists(pre):
            yield " ".join(a[:5] + p2 + ["/"] + wakes)
        for w2 in smaller_wakes(wakes):
            yield " ".join(a[:5] + pre + ["/"] + w2)


# ---- generator ---------------------------------------------------------------------------------
CLASS_EDGES = sorted({v for k in range(16) for v in (k << 12, (k << 12) - 1, (k << 12) + 1,
                                                     (k << 12) | 0x0F00, (k << 12) | 0x0FFF,
                                                     (k << 12) | 0x0100, (k << 12) | 0x00FF)
                      if 0 <= v <= 0xFFFF} | {0xFF00, 0xFEFF, 0xFFFF, 0xF000, 0xF0FF, 0xF100})
RESET_CODES = [0x0000, 0x0001, 0x007F, 0x0080, 0x00FF]
NEAR_RESET = [0x0100, 0x0101, 0x01FF, 0x8000, 0xFF00, 0x1000]
BOUNDARY_REGS = [0, 1, 2, 0x7F, 0x80, 0xFE, 0xFF]


def rcode(rng):
    x = rng.random()
    if x < 0.22:
        return rng.choice(RESET_CODES) if rng.random() < 0.6 else rng.randrange(0, 0x100)
    if x < 0.35:
        return rng.choice(NEAR_RESET)
    if x < 0.6:
        return rng.choice(CLASS_EDGES)
    return rng.randrange(0, 0x10000)


def rreg(rng):
    return rng.choice(BOUNDARY_REGS) if rng.random() < 0.3 else rng.randrange(0, 256)


def rdata(rng, n):
    x = rng.random()
    if x < 0.15:
        return bytes(n)
    if x < 0.25:
        return bytes([0xFF]) * n
    return bytes(rng.getrandbits(8) for _ in range(n))


def frame_bytes(code, reg, data5):
    return bytes([code & 0xFF, code >> 8, reg]) + data5


def rframe_tok(rng, ts, nid, p_bad=0.06, p_notify=0.3):
    if rng.random() < p_bad:
        n = rng.choice([0, 1, 2, 3, 7, 9, 12])
        data = rdata(rng, n)
    else:
        data = frame_bytes(rcode(rng), rreg(rng), rdata(rng, 5))
    if rng.random() < p_notify:
        cid = 0x80 + nid if rng.random() < 0.7 else rng.choice([0x80, 0x80 + (nid % 127) + 1, 0xFF, 0x81])
        return f"n:{cid}:{hx(data)}:{ts}"
    return f"f:{hx(data)}:{ts}"


def rhist(rng, nid, n, ts0=1000):
    evs = []
    ts = ts0
    for _ in range(n):
        x = rng.random()
        ts += rng.choice([0, 1, 1, 7])
        if x < 0.08:
            evs.append(f"c:{rng.randrange(0, 4)}")
        elif x < 0.11:
            evs.append("r")
        else:
            evs.append(rframe_tok(rng, ts, nid))
    return evs


def small_alphabet(nid):
    return [f"f:{hx(frame_bytes(0x2001, 2, bytes([1, 2, 3, 4, 5])))}:1",
            f"f:{hx(frame_bytes(0x00FF, 0, bytes(5)))}:2",            # reset class, non-zero code
            f"n:{0x80 + nid}:{hx(frame_bytes(0x0100, 255, bytes([255] * 5)))}:3",   # just not a reset
            "c:1", "r", "f:0120:4"]                                    # callback, API reset, short frame


def gen_hist(tier, rng):
    nid = 5
    alpha = small_alphabet(nid)
    yield f"hist {nid}"
    for a in alpha:
        yield f"hist {nid} {a}"
    for a in alpha:
        for b in alpha:
            yield f"hist {nid} {a} {b}"
            for c in alpha:
                yield f"hist {nid} c:0 {a} {b} {c}"
    # every reset code and every class edge once, between two errors
    for code in RESET_CODES + NEAR_RESET + CLASS_EDGES:
        mid = hx(frame_bytes(code, code & 0xFF, bytes([code & 0xFF] * 5)))
        yield (f"hist {nid} c:7 f:{hx(frame_bytes(0x1000, 1, bytes(5)))}:10 f:{mid}:11 "
               f"f:{hx(frame_bytes(0x8130, 0x11, bytes([9, 8, 7, 6, 5])))}:12")
    # all registers
    for reg in range(256):
        yield f"hist {nid} f:{hx(frame_bytes(0x3000 + reg, reg, bytes([reg] * 5)))}:{reg}"
    n_short, n_long = (3000, 40) if tier == "quick" else (40000, 400)
    for _ in range(n_short):
        nid = rng.choice([1, 5, 127, rng.randrange(1, 128)])
        yield (f"hist {nid} " + " ".join(rhist(rng, nid, rng.randrange(0, 41)))).rstrip()
    for _ in range(n_long):
        nid = rng.randrange(1, 128)
        yield f"hist {nid} " + " ".join(rhist(rng, nid, rng.randrange(100, 401)))


def gen_wait(tier, rng):
    nid = 5
    X = hx(frame_bytes(0x2001, 1, bytes([1, 2, 3, 4, 5])))     # matches the filter 0x2001
    Y = hx(frame_bytes(0x3001, 2, bytes(5)))                    # does not
    Z = hx(frame_bytes(0x0000, 0, bytes(5)))                    # error reset
    # all scripts of <= 3 wake-ups over batches of <= 2 single frames, clock at / beyond the deadline
    batches = [[], [X], [Y], [X, Y], [Y, X], [Y, Y], [X, X], [Z, X]]
    ts = [0]

    def tok(batch, now):
        evs = []
        for h in batch:
            ts[0] += 1
            evs.append(f"f:{h}:{ts[0]}")
        return f"w@{now}@{'+'.join(evs) if evs else '-'}"

    for filt in ("none", str(0x2001)):
        yield f"wait {nid} {filt} 10 100 /"
        yield f"wait {nid} {filt} 10 100 f:{Y}:1 /"
        for b1 in batches:
            for now1 in (100, 110, 111):
                yield f"wait {nid} {filt} 10 100 f:{Y}:0 / {tok(b1, now1)}"
                if now1 != 110:
                    continue
                for b2 in batches:
                    for now2 in (110, 111):
                        yield f"wait {nid} {filt} 10 100 / {tok(b1, now1)} {tok(b2, now2)}"
                    if tier == "thorough" or b1 in ([Y], [X, Y], [Y, Y]):
                        for b3 in batches:
                            yield f"wait {nid} {filt} 10 100 / {tok(b1, 105)} {tok(b2, 106)} {tok(b3, 110)}"
    # seeded scripts
    n = 3000 if tier == "quick" else 40000
    for _ in range(n):
        nid = rng.choice([5, rng.randrange(1, 128)])
        filt_code = rcode(rng)
        filt = "none" if rng.random() < 0.4 else str(filt_code)
        timeout = rng.choice([0, 1, 10, 1000])
        t0 = rng.choice([0, 100, 1700000000])
        pre = rhist(rng, nid, rng.randrange(0, 4))
        wakes = []
        t = 5000
        for _ in range(rng.randrange(0, 6)):
            evs = []
            for _ in range(rng.choice([0, 1, 1, 1, 2, 3])):
                t += 1
                x = rng.random()
                if x < 0.04:
                    evs.append("r")
                elif x < 0.08:
                    evs.append(f"c:{rng.randrange(4)}")
                elif x < 0.5 and filt != "none":
                    evs.append(f"f:{hx(frame_bytes(filt_code, rreg(rng), rdata(rng, 5)))}:{t}")
                else:
                    evs.append(rframe_tok(rng, t, nid))
            now = t0 + rng.choice([0, timeout, timeout, timeout + 1, rng.randrange(0, timeout + 2)])
            wakes.append(f"w@{now}@{'+'.join(evs) if evs else '-'}")
        yield f"wait {nid} {filt} {timeout} {t0} " + " ".join(pre + ["/"] + wakes)


def gen_waitrt(tier, rng):
    """real Condition and threads.  Scripts either end with a hand-over (long real time-out, never
    reached) or consist of wake-ups that cannot hand anything over (short real time-out)."""
    nid = 5
    X = hx(frame_bytes(0x2001, 1, bytes([1, 2, 3, 4, 5])))
    Y = hx(frame_bytes(0x3001, 2, bytes(5)))
    yield f"waitrt {nid} none 2 /"
    yield f"waitrt {nid} 8193 2 f:{X}:1 /"
    yield f"waitrt {nid} none 5000 / w@0@f:{X}:1"
    yield f"waitrt {nid} 8193 5000 / w@0@f:{X}:1"
    yield f"waitrt {nid} 8193 5000 f:{X}:1 / w@0@f:{Y}:2 w@0@f:{Y}:3 w@0@f:{X}:4"
    yield f"waitrt {nid} 8193 5000 / w@0@f:{Y}:2+f:{X}:4"              # burst whose last entry matches
    yield f"waitrt {nid} 8193 10 / w@0@f:{Y}:2"                 # non-matching, then time-out
    yield f"waitrt {nid} 8193 5000 / w@0@f:{X}:2+f:{Y}:3"       # the burst of the known finding
    n = 20 if tier == "quick" else 300
    for _ in range(n):
        code = rcode(rng)
        filt = "none" if rng.random() < 0.4 else str(code)
        wakes = []
        t = 0
        if filt != "none":
            for _ in range(rng.randrange(0, 3)):
                t += 1
                other = (code + rng.randrange(1, 0x10000)) & 0xFFFF
                wakes.append(f"w@0@f:{hx(frame_bytes(other, rreg(rng), rdata(rng, 5)))}:{t}")
        t += 1
        wakes.append(f"w@0@f:{hx(frame_bytes(code, rreg(rng), rdata(rng, 5)))}:{t}")
        yield f"waitrt {nid} {filt} 5000 / " + " ".join(wakes)


CAPS = [256, 1000, 1024, 4096, 10000, 65535, 65536]      # sizes at which a bounded log would plausibly be cut


def rrun(rng, n, ts0, active_grows=None):
    """a run-length token; with active_grows the code stays outside class 00xx so that `active` grows with the log"""
    if active_grows is None:
        active_grows = rng.random() < 0.5
    if active_grows:
        code0, cstep = rng.choice([0x2001, 0x8130, 0xFF00, 0x0100, rng.randrange(0x100, 0x10000)]), 0
    else:
        code0, cstep = rng.randrange(0, 0x10000), rng.choice([1, 37, 255, 256, 257, 4099, rng.randrange(1, 0x10000)])
    return f"R:{n}:{code0}:{cstep}:{rng.randrange(0, 256)}:{ts0}"


def gen_long(tier, rng):
    """histories of thousands of frames (digested): at, just below and just above every plausible cap, one beyond
    2^16, with callbacks registered, error resets and reset() calls in between, malformed frames"""
    nid = 5
    yield f"long {nid}"
    yield f"long {nid} c:1 R:3:255:1:254:100 f:0120:7 r R:2:8193:0:0:5"
    # one long run with two callbacks: log, active (never reset) and the invocations grow together
    big = 70000 + rng.randrange(0, 64)
    yield f"long {nid} c:1 c:2 {rrun(rng, big, 0, True)}"
    # code sweeps through class 00xx again and again: active is cut while the log keeps growing
    yield f"long {rng.randrange(1, 128)} c:3 R:{2500 + rng.randrange(0, 500)}:{rng.randrange(0, 65536)}:37:0:1000"
    sizes = sorted({c + d for c in CAPS if c <= 10000 or tier == "thorough" for d in (-1, 0, 1)})
    for n in sizes:
        yield f"long {nid} c:0 {rrun(rng, n, 50, True)}"
    if tier == "thorough":
        yield f"long {nid} {rrun(rng, 65537, 7, False)}"
    n_rand = 6 if tier == "quick" else 60
    for _ in range(n_rand):
        nid = rng.randrange(1, 128)
        toks, ts = [], 0
        for _ in range(rng.randrange(2, 9)):
            x = rng.random()
            if x < 0.55:
                n = rng.choice([rng.randrange(1, 300), rng.randrange(300, 3000), rng.choice(CAPS[:5]) + rng.randrange(-2, 3)])
                toks.append(rrun(rng, n, ts))
                ts += n
            elif x < 0.65:
                toks.append(f"c:{rng.randrange(0, 4)}")
            elif x < 0.72:
                toks.append("r")
            else:
                ts += 1
                toks.append(rframe_tok(rng, ts, nid))
        yield f"long {nid} " + " ".join(toks)
    if tier == "thorough":
        yield f"long 5 c:1 {rrun(rng, 131073, 0, True)}"
        yield f"long 5 {rrun(rng, 300000 + rng.randrange(0, 1000), 0, False)}"


def gen_late_waits(tier, rng):
    """wait() entered after a long history: the waiter must still be handed the next frame (scripted monitor,
    real condition variable with one thread and with several)"""
    nid = 5
    X = hx(frame_bytes(0x2001, 1, bytes([1, 2, 3, 4, 5])))
    Y = hx(frame_bytes(0x3001, 2, bytes(5)))
    pres = [c + d for c in CAPS if c <= 10000 or tier == "thorough" for d in (-1, 0)] + [2500 + rng.randrange(0, 100)]
    if tier == "thorough":
        pres += [70001, 131072]
    for n in pres:
        run = rrun(rng, n, 0)
        filt = rng.choice(["none", str(0x2001)])
        yield f"wait {nid} {filt} 10 100 {run} / w@105@f:{X}:900000"
        yield f"wait {nid} {0x2001} 10 100 {run} / w@105@f:{Y}:900000 w@110@f:{Y}:900001+f:{X}:900002+f:{Y}:900003"
    # the history grows past the cap while the caller waits, in one burst and frame by frame
    for cap in CAPS[:5]:
        run = rrun(rng, cap - 3, 0)
        yield f"wait {nid} {0x2001} 10 100 {run} / w@101@R:8:12289:0:0:800000 w@102@f:{X}:900000"
        yield (f"wait {nid} {0x2001} 10 100 {run} / " +
               " ".join(f"w@101@f:{Y}:{800000 + i}" for i in range(6)) + f" w@102@f:{X}:900000")
    big = 70000 + rng.randrange(0, 64)
    yield f"wait {nid} none 10 100 {rrun(rng, big, 0)} / w@105@f:{X}:900000"
    yield f"waitrt {nid} {0x2001} 5000 {rrun(rng, 2500 + rng.randrange(0, 100), 0)} / w@0@f:{Y}:900000 w@0@f:{X}:900001"
    yield f"waitrt {nid} none 5000 {rrun(rng, big if tier == 'thorough' else 10001, 0)} / w@0@f:{X}:900000"
    yield (f"mwait {nid} 100 none~20|{0x2001}~20|{0x3001}~20 {rrun(rng, 2500 + rng.randrange(0, 100), 0)} / "
           f"w@105@f:{Y}:900000 w@106@f:{X}:900001")
    yield f"mwait {nid} 100 none~20|none~20 {rrun(rng, big if tier == 'thorough' else 4097, 0)} / w@105@f:{X}:900000"


def gen_mwait(tier, rng):
    """k = 1..4 threads blocked in wait() on the real condition variable before the frames arrive"""
    nid = 5
    XC, YC, ZC = 0x2001, 0x3001, 0x5000
    X = hx(frame_bytes(XC, 1, bytes([1, 2, 3, 4, 5])))
    Y = hx(frame_bytes(YC, 2, bytes(5)))
    E = hx(frame_bytes(0x0000, 0, bytes(5)))                  # error reset frame
    scripts = [
        f"w@105@f:{X}:1",                                     # one frame
        f"w@105@f:{Y}:1 w@106@f:{X}:2",                       # two frames, one wake-up each
        f"w@105@f:{Y}:1+f:{X}:2+f:{Y}:3",                     # burst
        f"w@105@c:1+f:0120:1 w@121@f:{X}:2 w@122@f:{Y}:3",    # nothing received; then late for time-out 20
        f"w@105@f:{E}:1 w@120@n:{0x80 + nid}:{X}:2",          # error reset, then exactly at the deadline, via the bus
    ]
    filters = ["none", str(XC), str(YC), str(ZC)]
    tmos = ["20", "30"]

    def tuples(k):
        if k == 0:
            yield []
            return
        for rest in tuples(k - 1):
            for f in filters:
                yield rest + [f]

    kmax_all = 3 if tier == "quick" else 4
    for k in range(1, kmax_all + 1):
        for fs in tuples(k):
            for j, sc in enumerate(scripts):
                if tier == "quick" and k == 3 and (len(set(fs)) == 1 or j % 2 != (filters.index(fs[0]) % 2)):
                    continue
                specs = "|".join(f"{f}~{tmos[(i + j) % 2]}" for i, f in enumerate(fs))
                yield f"mwait {nid} 100 {specs} / {sc}"
    n = 120 if tier == "quick" else 1500
    for _ in range(n):
        nid = rng.choice([5, rng.randrange(1, 128)])
        k = rng.choice([2, 3, 4, 4]) if rng.random() < 0.85 else 1
        codes = [rcode(rng) for _ in range(rng.randrange(1, 4))]
        t0 = rng.choice([0, 100, 1700000000])
        specs = []
        for _ in range(k):
            f = "none" if rng.random() < 0.35 else str(rng.choice(codes))
            specs.append(f"{f}~{rng.choice([20, 25, 1000])}")
        pre = rhist(rng, nid, rng.randrange(0, 4))
        wakes, t, now = [], 5000, t0
        for _ in range(rng.randrange(1, 6)):
            evs = []
            for _ in range(rng.choice([1, 1, 1, 2, 3])):
                t += 1
                x = rng.random()
                if x < 0.03:
                    evs.append("r")
                elif x < 0.08:
                    evs.append(f"c:{rng.randrange(4)}")
                elif x < 0.6:
                    evs.append(f"f:{hx(frame_bytes(rng.choice(codes), rreg(rng), rdata(rng, 5)))}:{t}")
                else:
                    evs.append(rframe_tok(rng, t, nid))
            now += rng.choice([0, 1, 5, 10, 20])
            wakes.append(f"w@{now}@{'+'.join(evs)}")
        yield f"mwait {nid} {t0} {'|'.join(specs)} " + " ".join(pre + ["/"] + wakes)


SEND_CODES = [-1, 0, 1, 0xFF, 0x100, 0x1000, 0x7FFF, 0x8000, 0xFF00, 0xFFFE, 0xFFFF, 0x10000, 0x12345, -0x8000]
SEND_REGS = [-1, 0, 1, 0x7F, 0x80, 0xFF, 0x100]


def gen_send(tier, rng):
    for code in SEND_CODES:
        for reg in SEND_REGS:
            for n in (0, 1, 4, 5, 6, 8):
                yield f"send 5 {code} {reg} {hx(bytes(range(1, n + 1)))}"
    for reg in SEND_REGS:
        for n in range(0, 9):
            yield f"preset 127 {reg} {hx(bytes([0xA0 + i for i in range(n)]))}"
    for reg in range(256):
        yield f"send 1 {0x1000 + reg} {reg} {hx(bytes([reg] * (reg % 6)))}"
    n = 1500 if tier == "quick" else 20000
    for _ in range(n):
        yield (f"send {rng.randrange(1, 128)} {rcode(rng)} {rreg(rng)} "
               f"{hx(rdata(rng, rng.randrange(0, 6)))}")


def rcall(rng, code=None):
    x = rng.random()
    data = hx(rdata(rng, rng.choice([0, 1, 2, 3, 4, 5, 5, 5]) if x > 0.03 else rng.choice([6, 8])))
    if x < 0.12:
        return f"r:{rreg(rng)}:{data}"
    if x < 0.16:
        return f"s:{rng.choice([-1, 0x10000, 70000])}:{rreg(rng)}:{data}"
    if x < 0.19:
        return f"s:{rcode(rng)}:{rng.choice([-1, 256])}:{data}"
    return f"s:{rcode(rng) if code is None else code}:{rreg(rng)}:{data}"


def gen_pc(tier, rng):
    yield "pc 5 5 100"
    yield "pc 5 5 100 s:8193:1:01 r:0:- s:-1:0:- s:65535:255:0102030405"
    yield "pc 5 6 100 s:8193:1:01 r:0:-"
    for code in RESET_CODES + NEAR_RESET + CLASS_EDGES:
        for n in range(0, 6):
            yield (f"pc 9 9 50 s:4096:1:aa s:{code}:{(code + n) & 0xFF}:{hx(bytes(range(0x10, 0x10 + n)))} "
                   f"s:33072:17:0908070605")
    for reg in range(256):
        yield f"pc 127 127 0 s:{0xFF00 + reg}:{reg}:{hx(bytes([reg]) * (reg % 6))}"
    n = 1000 if tier == "quick" else 10000
    for _ in range(n):
        nid = rng.randrange(1, 128)
        rn = nid if rng.random() < 0.9 else (nid % 127) + 1
        yield f"pc {nid} {rn} {rng.choice([0, 1000, 1700000000])} " + \
            " ".join(rcall(rng) for _ in range(rng.randrange(1, 17)))
    if tier == "thorough":
        # every 16-bit code through producer -> bus -> consumer
        for base in range(0, 0x10000, 16):
            yield "pc 3 3 7 " + " ".join(rcall(rng, code) for code in range(base, base + 16))


def gen_desc(tier, rng):
    if tier == "thorough":
        for code in range(0x10000):
            yield f"desc {code}"
    else:
        for hb in range(256):
            for lb in (0x00, 0x01, 0x02, 0x0F, 0x10, 0x11, 0x3C, 0x55, 0x7F, 0x80, 0x81, 0xAA, 0xC3, 0xF0,
                       0xFE, 0xFF):
                yield f"desc {(hb << 8) | lb}"
        for _ in range(2000):
            yield f"desc {rng.randrange(0, 0x10000)}"
    for code in (0x10000, 0x10001, 0x12000, 0x1FF00, 0xFFFFFF, 0x100000000, 0x12345678):
        yield f"desc {code}"


def gen_ops(tier, rng):
    yield from gen_desc(tier, rng)
    yield from gen_send(tier, rng)
    yield from gen_pc(tier, rng)
    yield from gen_hist(tier, rng)
    yield from gen_wait(tier, rng)
    yield from gen_waitrt(tier, rng)
    yield from gen_mwait(tier, rng)
    yield from gen_long(tier, rng)
    yield from gen_late_waits(tier, rng)


CORPUS = [
    # the burst that EmcyConsumer.wait lost before the repair (fixed finding): matching entry followed by
    # another frame; first with the real threading.Condition and a waiter thread, then with the scripted monitor
    "waitrt 5 8193 5000 / w@0@f:0120010102030405:2+f:0130020000000000:3",
    "wait 5 8193 10 100 / w@105@f:0120010102030405:1+f:0130020000000000:2",
    "wait 5 none 10 100 / w@105@f:0120010102030405:1+f:0130020000000000:2",
    # more frames than any plausible bound on the log, then a caller that waits; three threads waiting at once
    "long 3 c:1 R:2500:4096:37:0:0",
    "wait 3 none 10 100 R:2500:4096:37:0:0 / w@105@f:30810168656c6c6f:9999",
    "mwait 4 100 none~20|33040~20|20480~20 / w@105@f:1081110078797a00:2",
    "mwait 4 100 none~20|none~20 / w@105@f:01ff000000000000:3",
    # the test-suite's own frames
    "hist 1 c:1 c:2 f:0120020001020304:1000 f:1090010403020100:2000 f:0000000000000000:2000",
]

LEVEL_TEXT = ("Lean 4 theorems over the generated EMCY_STRUCT format and DESCRIPTIONS table: for every history of "
              "frames (valid or malformed), add_callback and reset() calls the log is the decoded frames in order, "
              "the active list the entries since the last error-reset frame, every callback registered before a "
              "frame is invoked once with it, in order; producer frame = CiA 301 layout and consumer decodes it to "
              "the same code/register/zero-padded data for all field values; get_desc = CiA 301 class for every "
              "code; wait() hands over the next matching entry or nothing on time-out, for all wake-up sequences "
              "(bursts of frames between two runs of the waiter included); histories of any length: the log grows by "
              "exactly the delivered frames (the driver's linear runner is proved equal to the model); k threads in "
              "wait(): the program is the juxtaposition of k single-waiter programs, each thread behaves as the "
              "single-waiter model on its own view of the schedule, no wake-up is lost, and under a fair schedule "
              "each is handed the first matching entry received since it started to wait")
LEVEL_NOTE = ("trusted: Lean kernel + propext/Classical.choice/Quot.sound; CPython struct for '<HB5s', "
              "threading.Condition (monitor semantics) and time.time are modelled, real threads are exercised by the "
              "waitrt ops only; the correspondence is only as strong as its generator (distribution in the evidence)")
TECHNIQUE = "Lean 4 proof over generated tables + differential correspondence with the implementation"
