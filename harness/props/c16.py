"""C16 — the EMCY consumer's log and active list mirror the received history; producer -> consumer;
descriptions; wait()."""
import threading
import time as _realtime

import canopen
import canopen.emcy as emcy_mod
from canopen.emcy import EmcyError

ID = "C16"
PROOF_MODULES = ["CanopenProofs.C16"]
GENERATED = ["Emcy"]
THEOREMS = [
    "Canopen.C16.frame_layout",
    "Canopen.C16.log_mirrors",
    "Canopen.C16.active_since_reset",
    "Canopen.C16.reset_code_is_class_00",
    "Canopen.C16.callbacks_in_order",
    "Canopen.C16.producer_consumer",
    "Canopen.C16.producer_rejects",
    "Canopen.C16.producer_history",
    "Canopen.C16.descriptions",
    "Canopen.C16.wait_next_matching",
    "Canopen.C16.wait_sound",
    "Canopen.C16.wait_nothing_without_match",
    "Canopen.C16.wait_burst_regression",
]
FINGERPRINT = [
    "canopen.emcy:EmcyConsumer.__init__",
    "canopen.emcy:EmcyConsumer.on_emcy",
    "canopen.emcy:EmcyConsumer.add_callback",
    "canopen.emcy:EmcyConsumer.reset",
    "canopen.emcy:EmcyConsumer.wait",
    "canopen.emcy:EmcyProducer.__init__",
    "canopen.emcy:EmcyProducer.send",
    "canopen.emcy:EmcyProducer.reset",
    "canopen.emcy:EmcyError.__init__",
    "canopen.emcy:EmcyError.get_desc",
    "canopen.emcy:EmcyError.__str__",
    "canopen.node.remote:RemoteNode.associate_network",
    "canopen.node.local:LocalNode.associate_network",
]
TRUSTED = [
    "CPython struct pack/unpack for the formats of EMCY_STRUCT modelled (CanopenModel/Emcy.lean: "
    "unsigned little-endian with range check, '<n>s' zero-padded and truncated, exact-size unpack)",
    "threading.Condition / time.time modelled by monitor semantics: EmcyConsumer.wait is a function "
    "of the sequence of wake-ups (what happened to the consumer while the waiter did not hold the "
    "lock, clock reading afterwards); real scheduling is exercised by the waitrt ops, not proved",
    "Spec/Cia301Emcy.lean: my reading of CiA 301 7.2.7 (frame layout, error code classes)",
]
ASSUMPTIONS = [
    "callbacks do not raise and do not call back into the consumer",
    "timestamps and clock readings are the integers the harness injects",
    "EmcyConsumer.reset() racing with a pending wait() is modelled (missed entry) "
    "but lies outside the property's quantifier (sequences of frames) and is not judged by the oracle",
]
RULE = ("ops hist (frame / notify / add_callback / reset histories on a RemoteNode's consumer, all "
        "histories of length <= 3 over a 6-letter alphabet plus seeded ones up to 400 events, codes "
        "biased to class boundaries and reset codes, registers 0..255, malformed frames of 0..12 "
        "bytes), wait (scripted Condition and clock: wake-ups with 0..3 events each, clock below / at / "
        "above the deadline, with and without code filter, all scripts of <= 3 wake-ups over a small "
        "alphabet), waitrt (real threading.Condition, feeder thread), send / preset / pc (producer "
        "frame and producer -> bus -> consumer, codes -1..65536, registers -1..256, data 0..8 bytes), "
        "desc (quick: every high byte x 16 low bytes + seeded; thorough: all 65536 codes); "
        "non-trivial = at least one entry was logged / a frame was sent / an entry was handed to the "
        "waiter / a non-empty description was returned")

PAD = 5


def hx(b):
    return bytes(b).hex() if len(b) else "-"


def unhx(s):
    return b"" if s == "-" else bytes.fromhex(s)


def nl(xs):
    xs = list(xs)
    return ",".join(str(x) for x in xs) if xs else "-"


def show_list(xs):
    xs = list(xs)
    return ",".join(xs) if xs else "-"


def canon_ts(ts):
    if isinstance(ts, float) and ts == int(ts):
        return str(int(ts))
    return str(ts)


def show_entry(e):
    if e is None:
        return "none"
    if not isinstance(e, EmcyError):
        return f"other:{type(e).__name__}"
    if not isinstance(e.data, (bytes, bytearray)):
        return f"{e.code}/{e.register}/nonbytes:{type(e.data).__name__}/{canon_ts(e.timestamp)}"
    return f"{e.code}/{e.register}/{hx(e.data)}/{canon_ts(e.timestamp)}"


# ---- implementation runners ------------------------------------------------------------------
class CapBus:
    """what Network.send_message needs from a python-can bus"""
    channel_info = "capture"

    def __init__(self, on_send=None):
        self.sent = []
        self.on_send = on_send

    def send(self, msg, timeout=None):
        self.sent.append(msg)
        if self.on_send:
            self.on_send(msg)

    def shutdown(self):
        pass


def mk_consumer(nid):
    net = canopen.Network()
    node = canopen.RemoteNode(nid, canopen.ObjectDictionary())
    net.add_node(node)
    return net, node.emcy


def apply_ev(net, cons, nid, tok, inv):
    """run one event token against the real objects; returns True when it raised"""
    a = tok.split(":")
    if a[0] == "f":
        data, ts = unhx(a[1]), int(a[2])
        call = lambda: cons.on_emcy(0x80 + nid, data, ts)
    elif a[0] == "n":
        cid, data, ts = int(a[1]), bytearray(unhx(a[2])), float(int(a[3]))
        call = lambda: net.notify(cid, data, ts)
    elif a[0] == "c":
        k = int(a[1])
        call = lambda: cons.add_callback(lambda e: inv.append((k, e)))
    elif a[0] == "r":
        call = cons.reset
    else:
        raise ValueError("bad event token " + tok)
    try:
        call()
    except Exception:
        return True
    return False


def run_hist(a):
    nid = int(a[1])
    net, cons = mk_consumer(nid)
    inv, raised, alen = [], [], []
    for i, tok in enumerate(a[2:]):
        if apply_ev(net, cons, nid, tok, inv):
            raised.append(i)
        alen.append(len(cons.active))
    return (f"log={show_list(show_entry(e) for e in cons.log)};"
            f"active={show_list(show_entry(e) for e in cons.active)};"
            f"inv={show_list(f'{k}@{show_entry(e)}' for k, e in inv)};"
            f"raised={nl(raised)};alen={nl(alen)}")


def split_slash(toks):
    if "/" in toks:
        i = toks.index("/")
        return toks[:i], toks[i + 1:]
    return toks, []


def parse_wake(tok):
    w, now, evs = tok.split("@")
    assert w == "w"
    return int(now), ([] if evs == "-" else evs.split("+"))


class FakeClock:
    """stands in for the `time` module inside canopen.emcy"""

    def __init__(self, now):
        self.now = float(now)

    def time(self):
        return self.now


class ScriptedCondition:
    """Monitor with a scripted environment: every `wait` releases the monitor, lets the script
    deliver the next batch of events to the consumer, sets the clock, and returns."""

    def __init__(self, script, clock, deliver):
        self.script = list(script)
        self.clock = clock
        self.deliver = deliver
        self.waits = 0
        self.depth = 0

    def __enter__(self):
        self.depth += 1
        return self

    def __exit__(self, *exc):
        self.depth -= 1
        return False

    def notify_all(self):
        pass

    def notify(self, n=1):
        pass

    def wait(self, timeout=None):
        self.waits += 1
        if self.script:
            now, evs = self.script.pop(0)
            for tok in evs:
                self.deliver(tok)
            self.clock.now = float(now)
            return bool(evs)
        return False


def run_wait(a):
    nid = int(a[1])
    filt = None if a[2] == "none" else int(a[2])
    timeout, t0 = int(a[3]), int(a[4])
    pre, wakes = split_slash(a[5:])
    net, cons = mk_consumer(nid)
    inv = []
    for tok in pre:
        apply_ev(net, cons, nid, tok, inv)
    clock = FakeClock(t0)
    cond = ScriptedCondition([parse_wake(w) for w in wakes], clock,
                             lambda tok: apply_ev(net, cons, nid, tok, inv))
    cons.emcy_received = cond
    saved = emcy_mod.time
    emcy_mod.time = clock
    try:
        try:
            r = cons.wait(filt, float(timeout)) if filt is not None else cons.wait(timeout=float(timeout))
            res = show_entry(r)
        except Exception:
            res = "raised"
    finally:
        emcy_mod.time = saved
    return f"res={res};waits={cond.waits};log={len(cons.log)}"


def run_waitrt(a):
    """real threading.Condition: the waiter runs in its own thread; the feeder (this thread)
    delivers each batch, holding the consumer's lock, once the waiter sits in Condition.wait.
    The deadline logic sees a frozen clock; Condition.wait uses real time."""
    nid = int(a[1])
    filt = None if a[2] == "none" else int(a[2])
    # scripts that must end in a time-out of the condition variable get a short real time-out,
    # scripts that end with a hand-over a long one (never reached unless a wake-up is lost)
    real_timeout = int(a[3]) / 1000.0
    pre, wakes = split_slash(a[4:])
    script = [parse_wake(w) for w in wakes]
    net, cons = mk_consumer(nid)
    inv = []
    for tok in pre:
        apply_ev(net, cons, nid, tok, inv)
    saved = emcy_mod.time
    emcy_mod.time = FakeClock(0)
    box = {}

    def waiter():
        try:
            box["r"] = show_entry(cons.wait(filt, real_timeout))
        except Exception:
            box["r"] = "raised"

    th = threading.Thread(target=waiter, daemon=True)
    try:
        th.start()
        for _, evs in script:
            limit = _realtime.monotonic() + 10.0
            while th.is_alive() and not cons.emcy_received._waiters and _realtime.monotonic() < limit:
                _realtime.sleep(0.0001)
            with cons.emcy_received:
                for tok in evs:
                    apply_ev(net, cons, nid, tok, inv)
        th.join(20.0)
    finally:
        emcy_mod.time = saved
    return f"res={box.get('r', 'hung')};log={len(cons.log)}"


def mk_producer(nid, on_send=None):
    bus = CapBus(on_send)
    net = canopen.Network(bus)
    node = net.create_node(nid, canopen.ObjectDictionary())
    return net, node, bus


def show_msg(msg):
    extra = ""
    if msg.is_extended_id or msg.is_remote_frame:
        extra = ":flags"
    return f"{msg.arbitration_id}:{hx(msg.data)}{extra}"


def run_send(a):
    nid = int(a[1])
    net, node, bus = mk_producer(nid)
    try:
        if a[0] == "send":
            node.emcy.send(int(a[2]), int(a[3]), unhx(a[4]))
        else:
            node.emcy.reset(int(a[2]), unhx(a[3]))
    except Exception:
        return "err" if not bus.sent else "err-after-send"
    if len(bus.sent) != 1:
        return f"sent-{len(bus.sent)}"
    return "ok " + show_msg(bus.sent[0])


def run_pc(a):
    lnid, rnid, ts0 = int(a[1]), int(a[2]), int(a[3])
    mnet, cons = mk_consumer(rnid)
    frames = []

    def on_send(msg):
        ts = float(ts0 + len(frames))
        frames.append(msg)
        # like a CAN bus: every other network sees a fresh copy of the frame
        mnet.notify(msg.arbitration_id, bytearray(msg.data), ts)

    snet, node, bus = mk_producer(lnid, on_send)
    raised = []
    for i, tok in enumerate(a[4:]):
        c = tok.split(":")
        try:
            if c[0] == "s":
                node.emcy.send(int(c[1]), int(c[2]), unhx(c[3]))
            elif c[0] == "r":
                node.emcy.reset(int(c[1]), unhx(c[2]))
            else:
                return "bad-op"
        except Exception:
            raised.append(i)
    return (f"frames={show_list(hx(m.data) for m in frames)};"
            f"log={show_list(show_entry(e) for e in cons.log)};"
            f"active={show_list(show_entry(e) for e in cons.active)};raised={nl(raised)}")


def run_desc(a):
    code = int(a[1])
    e = EmcyError(code, 0, b"\0" * 5, 0)
    return f"ok {e.get_desc()}|{e}"


def run_impl(op):
    a = op.split(" ")
    k = a[0]
    if k == "hist":
        return run_hist(a)
    if k == "wait":
        return run_wait(a)
    if k == "waitrt":
        return run_waitrt(a)
    if k in ("send", "preset"):
        return run_send(a)
    if k == "pc":
        return run_pc(a)
    if k == "desc":
        return run_desc(a)
    return "bad-op"


def canon_model(op, out):
    return out


# ---- independent oracle: the property, stated on the implementation's answers -----------------
# CiA 301 emergency error code classes by high byte (written from the standard, not from the code)
def spec_class(code):
    hb = (code >> 8) & 0xFF
    if hb == 0x00:
        return "Error Reset / No Error"
    if hb == 0x10:
        return "Generic Error"
    if 0x20 <= hb <= 0x2F:
        return "Current"
    if 0x30 <= hb <= 0x3F:
        return "Voltage"
    if 0x40 <= hb <= 0x4F:
        return "Temperature"
    if hb == 0x50:
        return "Device Hardware"
    if 0x60 <= hb <= 0x6F:
        return "Device Software"
    if hb == 0x70:
        return "Additional Modules"
    if 0x80 <= hb <= 0x8F:
        return "Monitoring"
    if hb == 0x90:
        return "External Error"
    if hb == 0xF0:
        return "Additional Functions"
    if hb == 0xFF:
        return "Device Specific"
    return ""


def spec_entry(data, ts):
    """the entry an 8-byte emergency frame denotes (CiA 301 7.2.7.3); None for a non-EMCY frame"""
    if len(data) != 8:
        return None
    return (data[0] | (data[1] << 8), data[2], bytes(data[3:8]), ts)


def fmt_entry(t):
    return f"{t[0]}/{t[1]}/{hx(t[2])}/{t[3]}"


def is_reset_code(code):
    return (code >> 8) == 0 if code < 0x10000 else (code & 0xFF00) == 0


class RefConsumer:
    """the property's words: log = every frame in arrival order; active = those since the last
    error-reset frame; every registered callback once per frame, in order"""

    def __init__(self, nid):
        self.nid = nid
        self.log, self.active, self.cbs, self.inv = [], [], [], []
        self.alen = []

    def ev(self, tok):
        a = tok.split(":")
        ent = None
        if a[0] == "f":
            ent = spec_entry(unhx(a[1]), int(a[2]))
        elif a[0] == "n":
            if int(a[1]) == 0x80 + self.nid:
                ent = spec_entry(unhx(a[2]), int(a[3]))
        elif a[0] == "c":
            self.cbs.append(int(a[1]))
        elif a[0] == "r":
            self.log, self.active = [], []
        if ent is not None:
            self.log.append(ent)
            if is_reset_code(ent[0]):
                self.active = []
            else:
                self.active.append(ent)
            for k in self.cbs:
                self.inv.append((k, ent))
        self.alen.append(len(self.active))
        return ent


def fields(out):
    return dict(kv.split("=", 1) for kv in out.split(";"))


def oracle_hist(a, out):
    ref = RefConsumer(int(a[1]))
    for tok in a[2:]:
        ref.ev(tok)
    try:
        f = fields(out)
    except Exception:
        return f"unreadable answer {out!r}"
    exp_log = show_list(fmt_entry(e) for e in ref.log)
    if f.get("log") != exp_log:
        return f"log is {f.get('log')}, the received history is {exp_log}"
    exp_act = show_list(fmt_entry(e) for e in ref.active)
    if f.get("active") != exp_act:
        return f"active list is {f.get('active')}, entries since the last error reset are {exp_act}"
    if f.get("alen") != nl(ref.alen):
        return f"active list sizes along the history are {f.get('alen')}, expected {nl(ref.alen)}"
    exp_inv = show_list(f"{k}@{fmt_entry(e)}" for k, e in ref.inv)
    if f.get("inv") != exp_inv:
        return f"callback invocations are {f.get('inv')}, expected {exp_inv}"
    return None


def wait_expectation(nid, filt, timeout, t0, pre, wakes):
    """(expected result, burst): the next matching entry or nothing on time-out.  A wake-up with
    nothing new is a time-out of the condition variable; an entry that arrives after the deadline
    is not handed over.  `burst` = the expected entry is not the last one of its batch."""
    ref = RefConsumer(nid)
    for tok in pre:
        ref.ev(tok)
    deadline = t0 + timeout
    for now, evs in wakes:
        batch = [e for e in (ref.ev(tok) for tok in evs) if e is not None]
        if not batch:
            return "none", False, len(ref.log)
        if now > deadline:
            return "none", False, len(ref.log)
        for i, e in enumerate(batch):
            if filt is None or e[0] == filt:
                return fmt_entry(e), i != len(batch) - 1, len(ref.log)
    return "none", False, len(ref.log)


def has_api_reset(wakes):
    return any(tok == "r" for _, evs in wakes for tok in evs)


def oracle_wait(a, out):
    nid = int(a[1])
    filt = None if a[2] == "none" else int(a[2])
    if a[0] == "waitrt":
        timeout, t0, rest = 0, 0, a[4:]
    else:
        timeout, t0, rest = int(a[3]), int(a[4]), a[5:]
    pre, wakes = split_slash(rest)
    wakes = [parse_wake(w) for w in wakes]
    if has_api_reset(wakes):
        return None     # reset() racing with wait(): outside the property's quantifier
    exp, burst, _ = wait_expectation(nid, filt, timeout, t0, pre, wakes)
    try:
        res = fields(out)["res"]
    except Exception:
        return f"unreadable answer {out!r}"
    if res != exp:
        if burst:
            return (f"wait handed {res} although the next matching entry {exp} had arrived "
                    f"(it was followed by another frame before the waiter ran: burst)")
        return f"wait handed {res}, the next matching entry / time-out rule gives {exp}"
    return None


def in_range(code, reg):
    return 0 <= code <= 0xFFFF and 0 <= reg <= 0xFF


def spec_frame(code, reg, data):
    return bytes([code & 0xFF, code >> 8, reg]) + data + bytes(PAD - len(data))


def oracle_send(a, out):
    nid = int(a[1])
    if a[0] == "send":
        code, reg, data = int(a[2]), int(a[3]), unhx(a[4])
    else:
        code, reg, data = 0, int(a[2]), unhx(a[3])
    if not in_range(code, reg):
        if out.startswith("ok"):
            return f"code {code} / register {reg} cannot be carried by an EMCY frame but {out} was sent"
        return None
    if len(data) > PAD:
        return None         # outside the property's quantifier (data of 0..5 bytes)
    exp = f"ok {0x80 + nid}:{hx(spec_frame(code, reg, data))}"
    if out != exp:
        return f"producer emitted {out}, CiA 301 says {exp}"
    return None


def oracle_pc(a, out):
    lnid, rnid, ts0 = int(a[1]), int(a[2]), int(a[3])
    log, active, n = [], [], 0
    judged = True
    for tok in a[4:]:
        c = tok.split(":")
        if c[0] == "s":
            code, reg, data = int(c[1]), int(c[2]), unhx(c[3])
        else:
            code, reg, data = 0, int(c[1]), unhx(c[2])
        if not in_range(code, reg):
            continue            # must raise and send nothing: then nothing is logged either
        if len(data) > PAD:
            judged = False      # truncation of over-long data: not claimed
            data = data[:PAD]
        ent = (code, reg, data + bytes(PAD - len(data)), ts0 + n)
        n += 1
        if lnid == rnid:
            log.append(ent)
            if code >> 8 == 0:
                active = []
            else:
                active.append(ent)
    if not judged:
        return None
    try:
        f = fields(out)
    except Exception:
        return f"unreadable answer {out!r}"
    exp_log = show_list(fmt_entry(e) for e in log)
    if f.get("log") != exp_log:
        return f"consumer decoded {f.get('log')}, the producer was given {exp_log}"
    exp_act = show_list(fmt_entry(e) for e in active)
    if f.get("active") != exp_act:
        return f"consumer's active list is {f.get('active')}, expected {exp_act}"
    return None


def oracle_desc(a, out):
    code = int(a[1])
    d = spec_class(code)
    exp = f"ok {d}|Code 0x{code:04X}" + (f", {d}" if d else "")
    if out != exp:
        return f"code 0x{code:04X} is described as {out!r}, its CiA 301 class is {exp!r}"
    return None


def oracle(op, out):
    a = op.split(" ")
    k = a[0]
    if out.startswith("HARNESS-RAISED"):
        return f"the harness could not drive the implementation: {out}"
    if k == "hist":
        return oracle_hist(a, out)
    if k in ("wait", "waitrt"):
        return oracle_wait(a, out)
    if k in ("send", "preset"):
        return oracle_send(a, out)
    if k == "pc":
        return oracle_pc(a, out)
    if k == "desc":
        return oracle_desc(a, out)
    return None


def signature(op, what):
    k = op.split(" ")[0]
    if k in ("wait", "waitrt"):
        return "wait:burst-entry-not-last" if "burst)" in what else "wait:result"
    if k == "hist":
        if what.startswith("log is"):
            return "hist:log"
        if what.startswith("active list"):
            return "hist:active"
        if what.startswith("callback"):
            return "hist:callbacks"
        return "hist:other"
    if k in ("send", "preset"):
        return f"{k}:{'range' if 'cannot be carried' in what else 'frame'}"
    if k == "pc":
        return "pc:active" if "active list" in what else "pc:log"
    if k == "desc":
        return f"desc:{(int(op.split(' ')[1]) >> 12) & 0xF:x}"
    return k


def nontrivial(op, out):
    k = op.split(" ")[0]
    if k in ("hist", "pc"):
        return ";" in out and fields(out).get("log", "-") != "-"
    if k in ("wait", "waitrt"):
        return out.startswith("res=") and not out.startswith(("res=none", "res=raised", "res=hung"))
    if k in ("send", "preset"):
        return out.startswith("ok")
    if k == "desc":
        return out.startswith("ok ") and not out.startswith("ok |")
    return False


def classify(op, out):
    a = op.split(" ")
    k = a[0]
    if k == "hist":
        n = len(a) - 2
        size = "0" if n == 0 else "1-3" if n <= 3 else "4-40" if n <= 40 else "41+"
        return f"hist:len{size}"
    if k in ("wait", "waitrt"):
        r = fields(out).get("res", "?") if out.startswith("res=") else "?"
        r = r if r in ("none", "raised", "hung", "?") else "entry"
        return f"{k}:{'filter' if a[2] != 'none' else 'nofilter'}:{r}"
    if k in ("send", "preset"):
        return f"{k}:{'ok' if out.startswith('ok') else 'err'}"
    if k == "desc":
        return "desc:" + ("empty" if out.startswith("ok |") else "class")
    return k


def shrink_candidates(op):
    a = op.split(" ")
    k = a[0]
    if k == "hist":
        evs = a[2:]
        for i in range(len(evs)):
            yield " ".join(a[:2] + evs[:i] + evs[i + 1:])
    elif k == "pc":
        calls = a[4:]
        for i in range(len(calls)):
            yield " ".join(a[:4] + calls[:i] + calls[i + 1:])
    elif k == "wait":
        pre, wakes = split_slash(a[5:])
        for i in range(len(pre)):
            yield " ".join(a[:5] + pre[:i] + pre[i + 1:] + ["/"] + wakes)
        for i in range(len(wakes)):
            yield " ".join(a[:5] + pre + ["/"] + wakes[:i] + wakes[i + 1:])
        for i, w in enumerate(wakes):
            now, evs = parse_wake(w)
            for j in range(len(evs)):
                rest = evs[:j] + evs[j + 1:]
                w2 = f"w@{now}@{'+'.join(rest) if rest else '-'}"
                yield " ".join(a[:5] + pre + ["/"] + wakes[:i] + [w2] + wakes[i + 1:])


# ---- generator ---------------------------------------------------------------------------------
CLASS_EDGES = sorted({v for k in range(16) for v in (k << 12, (k << 12) - 1, (k << 12) + 1,
                                                     (k << 12) | 0x0F00, (k << 12) | 0x0FFF,
                                                     (k << 12) | 0x0100, (k << 12) | 0x00FF)
                      if 0 <= v <= 0xFFFF} | {0xFF00, 0xFEFF, 0xFFFF, 0xF000, 0xF0FF, 0xF100})
RESET_CODES = [0x0000, 0x0001, 0x007F, 0x0080, 0x00FF]
NEAR_RESET = [0x0100, 0x0101, 0x01FF, 0x8000, 0xFF00, 0x1000]
BOUNDARY_REGS = [0, 1, 2, 0x7F, 0x80, 0xFE, 0xFF]


def rcode(rng):
    x = rng.random()
    if x < 0.22:
        return rng.choice(RESET_CODES) if rng.random() < 0.6 else rng.randrange(0, 0x100)
    if x < 0.35:
        return rng.choice(NEAR_RESET)
    if x < 0.6:
        return rng.choice(CLASS_EDGES)
    return rng.randrange(0, 0x10000)


def rreg(rng):
    return rng.choice(BOUNDARY_REGS) if rng.random() < 0.3 else rng.randrange(0, 256)


def rdata(rng, n):
    x = rng.random()
    if x < 0.15:
        return bytes(n)
    if x < 0.25:
        return bytes([0xFF]) * n
    return bytes(rng.getrandbits(8) for _ in range(n))


def frame_bytes(code, reg, data5):
    return bytes([code & 0xFF, code >> 8, reg]) + data5


def rframe_tok(rng, ts, nid, p_bad=0.06, p_notify=0.3):
    if rng.random() < p_bad:
        n = rng.choice([0, 1, 2, 3, 7, 9, 12])
        data = rdata(rng, n)
    else:
        data = frame_bytes(rcode(rng), rreg(rng), rdata(rng, 5))
    if rng.random() < p_notify:
        cid = 0x80 + nid if rng.random() < 0.7 else rng.choice([0x80, 0x80 + (nid % 127) + 1, 0xFF, 0x81])
        return f"n:{cid}:{hx(data)}:{ts}"
    return f"f:{hx(data)}:{ts}"


def rhist(rng, nid, n, ts0=1000):
    evs = []
    ts = ts0
    for _ in range(n):
        x = rng.random()
        ts += rng.choice([0, 1, 1, 7])
        if x < 0.08:
            evs.append(f"c:{rng.randrange(0, 4)}")
        elif x < 0.11:
            evs.append("r")
        else:
            evs.append(rframe_tok(rng, ts, nid))
    return evs


def small_alphabet(nid):
    return [f"f:{hx(frame_bytes(0x2001, 2, bytes([1, 2, 3, 4, 5])))}:1",
            f"f:{hx(frame_bytes(0x00FF, 0, bytes(5)))}:2",            # reset class, non-zero code
            f"n:{0x80 + nid}:{hx(frame_bytes(0x0100, 255, bytes([255] * 5)))}:3",   # just not a reset
            "c:1", "r", "f:0120:4"]                                    # callback, API reset, short frame


def gen_hist(tier, rng):
    nid = 5
    alpha = small_alphabet(nid)
    yield f"hist {nid}"
    for a in alpha:
        yield f"hist {nid} {a}"
    for a in alpha:
        for b in alpha:
            yield f"hist {nid} {a} {b}"
            for c in alpha:
                yield f"hist {nid} c:0 {a} {b} {c}"
    # every reset code and every class edge once, between two errors
    for code in RESET_CODES + NEAR_RESET + CLASS_EDGES:
        mid = hx(frame_bytes(code, code & 0xFF, bytes([code & 0xFF] * 5)))
        yield (f"hist {nid} c:7 f:{hx(frame_bytes(0x1000, 1, bytes(5)))}:10 f:{mid}:11 "
               f"f:{hx(frame_bytes(0x8130, 0x11, bytes([9, 8, 7, 6, 5])))}:12")
    # all registers
    for reg in range(256):
        yield f"hist {nid} f:{hx(frame_bytes(0x3000 + reg, reg, bytes([reg] * 5)))}:{reg}"
    n_short, n_long = (3000, 40) if tier == "quick" else (40000, 400)
    for _ in range(n_short):
        nid = rng.choice([1, 5, 127, rng.randrange(1, 128)])
        yield (f"hist {nid} " + " ".join(rhist(rng, nid, rng.randrange(0, 41)))).rstrip()
    for _ in range(n_long):
        nid = rng.randrange(1, 128)
        yield f"hist {nid} " + " ".join(rhist(rng, nid, rng.randrange(100, 401)))


def gen_wait(tier, rng):
    nid = 5
    X = hx(frame_bytes(0x2001, 1, bytes([1, 2, 3, 4, 5])))     # matches the filter 0x2001
    Y = hx(frame_bytes(0x3001, 2, bytes(5)))                    # does not
    Z = hx(frame_bytes(0x0000, 0, bytes(5)))                    # error reset
    # all scripts of <= 3 wake-ups over batches of <= 2 single frames, clock at / beyond the deadline
    batches = [[], [X], [Y], [X, Y], [Y, X], [Y, Y], [X, X], [Z, X]]
    ts = [0]

    def tok(batch, now):
        evs = []
        for h in batch:
            ts[0] += 1
            evs.append(f"f:{h}:{ts[0]}")
        return f"w@{now}@{'+'.join(evs) if evs else '-'}"

    for filt in ("none", str(0x2001)):
        yield f"wait {nid} {filt} 10 100 /"
        yield f"wait {nid} {filt} 10 100 f:{Y}:1 /"
        for b1 in batches:
            for now1 in (100, 110, 111):
                yield f"wait {nid} {filt} 10 100 f:{Y}:0 / {tok(b1, now1)}"
                if now1 != 110:
                    continue
                for b2 in batches:
                    for now2 in (110, 111):
                        yield f"wait {nid} {filt} 10 100 / {tok(b1, now1)} {tok(b2, now2)}"
                    if tier == "thorough" or b1 in ([Y], [X, Y], [Y, Y]):
                        for b3 in batches:
                            yield f"wait {nid} {filt} 10 100 / {tok(b1, 105)} {tok(b2, 106)} {tok(b3, 110)}"
    # seeded scripts
    n = 3000 if tier == "quick" else 40000
    for _ in range(n):
        nid = rng.choice([5, rng.randrange(1, 128)])
        filt_code = rcode(rng)
        filt = "none" if rng.random() < 0.4 else str(filt_code)
        timeout = rng.choice([0, 1, 10, 1000])
        t0 = rng.choice([0, 100, 1700000000])
        pre = rhist(rng, nid, rng.randrange(0, 4))
        wakes = []
        t = 5000
        for _ in range(rng.randrange(0, 6)):
            evs = []
            for _ in range(rng.choice([0, 1, 1, 1, 2, 3])):
                t += 1
                x = rng.random()
                if x < 0.04:
                    evs.append("r")
                elif x < 0.08:
                    evs.append(f"c:{rng.randrange(4)}")
                elif x < 0.5 and filt != "none":
                    evs.append(f"f:{hx(frame_bytes(filt_code, rreg(rng), rdata(rng, 5)))}:{t}")
                else:
                    evs.append(rframe_tok(rng, t, nid))
            now = t0 + rng.choice([0, timeout, timeout, timeout + 1, rng.randrange(0, timeout + 2)])
            wakes.append(f"w@{now}@{'+'.join(evs) if evs else '-'}")
        yield f"wait {nid} {filt} {timeout} {t0} " + " ".join(pre + ["/"] + wakes)


def gen_waitrt(tier, rng):
    """real Condition and threads.  Scripts either end with a hand-over (long real time-out, never
    reached) or consist of wake-ups that cannot hand anything over (short real time-out)."""
    nid = 5
    X = hx(frame_bytes(0x2001, 1, bytes([1, 2, 3, 4, 5])))
    Y = hx(frame_bytes(0x3001, 2, bytes(5)))
    yield f"waitrt {nid} none 2 /"
    yield f"waitrt {nid} 8193 2 f:{X}:1 /"
    yield f"waitrt {nid} none 5000 / w@0@f:{X}:1"
    yield f"waitrt {nid} 8193 5000 / w@0@f:{X}:1"
    yield f"waitrt {nid} 8193 5000 f:{X}:1 / w@0@f:{Y}:2 w@0@f:{Y}:3 w@0@f:{X}:4"
    yield f"waitrt {nid} 8193 5000 / w@0@f:{Y}:2+f:{X}:4"              # burst whose last entry matches
    yield f"waitrt {nid} 8193 10 / w@0@f:{Y}:2"                 # non-matching, then time-out
    yield f"waitrt {nid} 8193 10 / w@0@f:{X}:2+f:{Y}:3"         # the burst of the known finding
    n = 20 if tier == "quick" else 300
    for _ in range(n):
        code = rcode(rng)
        filt = "none" if rng.random() < 0.4 else str(code)
        wakes = []
        t = 0
        if filt != "none":
            for _ in range(rng.randrange(0, 3)):
                t += 1
                other = (code + rng.randrange(1, 0x10000)) & 0xFFFF
                wakes.append(f"w@0@f:{hx(frame_bytes(other, rreg(rng), rdata(rng, 5)))}:{t}")
        t += 1
        wakes.append(f"w@0@f:{hx(frame_bytes(code, rreg(rng), rdata(rng, 5)))}:{t}")
        yield f"waitrt {nid} {filt} 5000 / " + " ".join(wakes)


SEND_CODES = [-1, 0, 1, 0xFF, 0x100, 0x1000, 0x7FFF, 0x8000, 0xFF00, 0xFFFE, 0xFFFF, 0x10000, 0x12345, -0x8000]
SEND_REGS = [-1, 0, 1, 0x7F, 0x80, 0xFF, 0x100]


def gen_send(tier, rng):
    for code in SEND_CODES:
        for reg in SEND_REGS:
            for n in (0, 1, 4, 5, 6, 8):
                yield f"send 5 {code} {reg} {hx(bytes(range(1, n + 1)))}"
    for reg in SEND_REGS:
        for n in range(0, 9):
            yield f"preset 127 {reg} {hx(bytes([0xA0 + i for i in range(n)]))}"
    for reg in range(256):
        yield f"send 1 {0x1000 + reg} {reg} {hx(bytes([reg] * (reg % 6)))}"
    n = 1500 if tier == "quick" else 20000
    for _ in range(n):
        yield (f"send {rng.randrange(1, 128)} {rcode(rng)} {rreg(rng)} "
               f"{hx(rdata(rng, rng.randrange(0, 6)))}")


def rcall(rng, code=None):
    x = rng.random()
    data = hx(rdata(rng, rng.choice([0, 1, 2, 3, 4, 5, 5, 5]) if x > 0.03 else rng.choice([6, 8])))
    if x < 0.12:
        return f"r:{rreg(rng)}:{data}"
    if x < 0.16:
        return f"s:{rng.choice([-1, 0x10000, 70000])}:{rreg(rng)}:{data}"
    if x < 0.19:
        return f"s:{rcode(rng)}:{rng.choice([-1, 256])}:{data}"
    return f"s:{rcode(rng) if code is None else code}:{rreg(rng)}:{data}"


def gen_pc(tier, rng):
    yield "pc 5 5 100"
    yield "pc 5 5 100 s:8193:1:01 r:0:- s:-1:0:- s:65535:255:0102030405"
    yield "pc 5 6 100 s:8193:1:01 r:0:-"
    for code in RESET_CODES + NEAR_RESET + CLASS_EDGES:
        for n in range(0, 6):
            yield (f"pc 9 9 50 s:4096:1:aa s:{code}:{(code + n) & 0xFF}:{hx(bytes(range(0x10, 0x10 + n)))} "
                   f"s:33072:17:0908070605")
    for reg in range(256):
        yield f"pc 127 127 0 s:{0xFF00 + reg}:{reg}:{hx(bytes([reg]) * (reg % 6))}"
    n = 1000 if tier == "quick" else 10000
    for _ in range(n):
        nid = rng.randrange(1, 128)
        rn = nid if rng.random() < 0.9 else (nid % 127) + 1
        yield f"pc {nid} {rn} {rng.choice([0, 1000, 1700000000])} " + \
            " ".join(rcall(rng) for _ in range(rng.randrange(1, 17)))
    if tier == "thorough":
        # every 16-bit code through producer -> bus -> consumer
        for base in range(0, 0x10000, 16):
            yield "pc 3 3 7 " + " ".join(rcall(rng, code) for code in range(base, base + 16))


def gen_desc(tier, rng):
    if tier == "thorough":
        for code in range(0x10000):
            yield f"desc {code}"
    else:
        for hb in range(256):
            for lb in (0x00, 0x01, 0x02, 0x0F, 0x10, 0x11, 0x3C, 0x55, 0x7F, 0x80, 0x81, 0xAA, 0xC3, 0xF0,
                       0xFE, 0xFF):
                yield f"desc {(hb << 8) | lb}"
        for _ in range(2000):
            yield f"desc {rng.randrange(0, 0x10000)}"
    for code in (0x10000, 0x10001, 0x12000, 0x1FF00, 0xFFFFFF, 0x100000000, 0x12345678):
        yield f"desc {code}"


def gen_ops(tier, rng):
    yield from gen_desc(tier, rng)
    yield from gen_send(tier, rng)
    yield from gen_pc(tier, rng)
    yield from gen_hist(tier, rng)
    yield from gen_wait(tier, rng)
    yield from gen_waitrt(tier, rng)


CORPUS = [
    # the burst that EmcyConsumer.wait lost before the repair (fixed finding): matching entry followed by
    # another frame; first with the real threading.Condition and a waiter thread, then with the scripted monitor
    "waitrt 5 8193 10 / w@0@f:0120010102030405:2+f:0130020000000000:3",
    "wait 5 8193 10 100 / w@105@f:0120010102030405:1+f:0130020000000000:2",
    "wait 5 none 10 100 / w@105@f:0120010102030405:1+f:0130020000000000:2",
    # the test-suite's own frames
    "hist 1 c:1 c:2 f:0120020001020304:1000 f:1090010403020100:2000 f:0000000000000000:2000",
]

LEVEL_TEXT = ("Lean 4 theorems over the generated EMCY_STRUCT format and DESCRIPTIONS table: for every history of "
              "frames (valid or malformed), add_callback and reset() calls the log is the decoded frames in order, "
              "the active list the entries since the last error-reset frame, every callback registered before a "
              "frame is invoked once with it, in order; producer frame = CiA 301 layout and consumer decodes it to "
              "the same code/register/zero-padded data for all field values; get_desc = CiA 301 class for every "
              "code; wait() hands over the next matching entry or nothing on time-out, for all wake-up sequences "
              "(bursts of frames between two runs of the waiter included)")
LEVEL_NOTE = ("trusted: Lean kernel + propext/Classical.choice/Quot.sound; CPython struct for '<HB5s', "
              "threading.Condition (monitor semantics) and time.time are modelled, real threads are exercised by the "
              "waitrt ops only; the correspondence is only as strong as its generator (distribution in the evidence)")
TECHNIQUE = "Lean 4 proof over generated tables + differential correspondence with the implementation"
