"""C09 — saving a PDO configuration follows the safe procedure and reads back identically.

One operation = one whole scenario on one PDO of one node:

  run <R|T> <n> <nodeid> <src> <curtis> <cfg> <map> <odcom> <odmap> <objsA> <objsB>
      <dev> <entries> <mappable> <wfault> <rfault>

  src      a: node A's PdoMap attributes are set from <cfg>/<map>, then A.save()
           o: the configuration comes from the dictionary: RemoteNode.load_configuration()
              (= pdo.read(from_od=True); pdo.save())
           d: A.read() from the live device, then A.save()
  cfg      cob,enabled,rtr,tt,inhibit,event,sync   ("-" = None)
  map      idx.sub.len;...                          ("-" = empty)
  odcom    sub:value:default;...   members of the communication record in the dictionary
  odmap    A/…  or  R/…            mapping object as ODArray or ODRecord, same member syntax
  objsA/B  idx  |  idx:s1,s2 ;...  objects node A's / node B's dictionary knows (variable | record)
  dev      cobword,tt,sub3,sub5,sub6,count,fixed    prior state of the device ("-" = sub absent)
  entries  w1,w2,...               prior mapping entries (their number = entries the object has)
  mappable w,...                   mapping words the device is able to map
  wfault / rfault   k,code         the k-th download / upload is answered with that abort

Then a *second*, fresh RemoteNode B (own Network) runs read().  The device is a strict CiA 301
device written here in Python, independently of the Lean spec (Spec/StrictPdoDevice.lean), behind
a minimal conformant SDO server on a fake network; the real SdoClient talks to it.

Output (one line): the PDO's dictionary slot, outcome/attributes/subscriptions of A, the ordered
list of SDO transactions the device saw, the device image, outcome/attributes/subscriptions of B
and B's transactions.

A second kind of operation drives the *collections* of a node with several PDOs:

  coll <nodeid> <pre> <save> <read> <objsA> <objsB> <wfault> <rfault> <pdo> [<pdo> ...]

  pdo      <R|T>~<n>~<how>~<cfg>~<map>~<odcom>~<odmap>~<dev>~<entries>~<mappable>   (fields as above)
           how  u: the PdoMap object is never touched (cob_id stays None)
                a: its attributes are set from <cfg>/<map>
                d: map.read() from the live device        o: map.read(from_od=True)
           the PDOs may be listed in any order; every one has its own strict PDO on the device
  pre      "-", or d<X> / o<X>: first <X>.read() / <X>.read(from_od=True) on a collection
  save     m: every listed map's own save(), in the order listed
           r / t: node.rpdo.save() / node.tpdo.save()      c: node.rpdo.save() then node.tpdo.save()
           p: node.pdo.save()                               l: node.load_configuration()
  read     m / r / t / c / p: how the second, fresh node reads the configuration back
  <X>      r | t | c | p  as under save

The steps of node A are: <pre>, then the per-PDO steps (<how>) in the order listed, then <save>.
Output: A=<outcome> mapsA=<key>:<attributes>:<subscriptions>|... log=<all SDO transactions>
dev=<image>|... B=<outcome> mapsB=... logB=...

A third kind makes the network's subscriber table *before* the call an input:

  subs <nodeid> <X><act> <objs> <prior> <pdo> [<pdo> ...]        (<pdo> as above, how = u | a)

  prior    "-" or  <cob>:<tok>,<tok>;<cob>:;...   what Network.subscribers holds before, built through
           Network.subscribe / unsubscribe / PdoMap.subscribe:
             A<k>       an application callback
             L<k>       on_message of TPDO k of a second node object on the same network (PDO linking)
             S<R|T><n>  on_message of this node's own map (an earlier subscription)
             no token   the id was subscribed and unsubscribed again (key with an empty list)
  X        m | r | t | c | p (as under save), or 4: BaseNode402.setup_pdos(upload=False)
  act      s: subscribe()      r: read()      v: save()       (on the maps / collections of X)

Node A sets the attributes of the `a` PDOs, then makes the call.  Output: A=<outcome>
mapsA=<key>:<attributes>|... tab=<cob>:<names in list order>;... (for every COB-ID named in the
operation; only the callbacks the operation knows by name) log=<SDO transactions>.
"""
import logging
import random
import struct

import canopen
from canopen import objectdictionary as od
from canopen.pdo.base import PdoVariable
from canopen.sdo import SdoAbortedError

ID = "C09"
PROOF_MODULES = ["CanopenProofs.C09", "CanopenProofs.C09Coll"]
GENERATED = ["PdoConfig", "Network"]
THEOREMS = [
    "Canopen.C09.save_order",
    "Canopen.C09.save_order_any_device",
    "Canopen.C09.entry_encoding",
    "Canopen.C09.strict_device_accepts",
    "Canopen.C09.strict_device_refuses_shortcuts",
    "Canopen.C09.read_back",
    "Canopen.C09.from_od",
    "Canopen.C09.load_configuration_round_trip",
    "Canopen.C09.pdo_numbering",
    "Canopen.C09.save_all_order_any_device",
    "Canopen.C09.save_all_append",
    "Canopen.C09.save_all_strict_device",
    "Canopen.C09.read_all_back",
    "Canopen.C09.pdo_maps_order",
    "Canopen.C09.subscribe_independent_of_table",
    "Canopen.C09.collection_subscribe",
]
FINGERPRINT = [
    "canopen.pdo.base:PdoMap.save",
    "canopen.pdo.base:PdoMap.read",
    "canopen.pdo.base:PdoMap.subscribe",
    "canopen.pdo.base:PdoMap.add_variable",
    "canopen.pdo.base:PdoMap._get_variable",
    "canopen.pdo.base:PdoMap._fill_map",
    "canopen.pdo.base:PdoMap.clear",
    "canopen.pdo.base:PdoMaps.__init__",
    "canopen.pdo.base:PdoBase.read",
    "canopen.pdo.base:PdoBase.save",
    "canopen.pdo.base:PdoBase.subscribe",
    "canopen.network:Network.subscribe",
    "canopen.pdo:RPDO.__init__",
    "canopen.pdo:TPDO.__init__",
    "canopen.pdo:PDO.__init__",
    "canopen.node.remote:RemoteNode.load_configuration",
    "canopen.sdo.base:SdoRecord.__getitem__",
    "canopen.sdo.base:SdoArray.__getitem__",
    "canopen.objectdictionary:ODArray.__getitem__",
    "canopen.objectdictionary:ODRecord.__getitem__",
]
TRUSTED = [
    "Spec/StrictPdoDevice.lean: my reading of CiA 301 §7.5.2.35-38 (PDO communication and mapping "
    "parameters, re-mapping procedure); written twice (Lean, Python peer in this module) and "
    "compared by the correspondence run",
    "Network.subscribe / unsubscribe are the C10 model (Net/Network.lean), tied to the code by C10's own "
    "correspondence run and here by the `subs` operations",
    "the SDO transport (SdoClient <-> server) is abstracted to (index, sub, size, value) "
    "transactions; the typed accessors are covered by C01-C04",
    "the PDO parameter entries of the dictionary have their CiA 301 types (UNSIGNED32 COB-ID and "
    "mapping words, UNSIGNED8 transmission type / SYNC start / count, UNSIGNED16 timers)",
]
ASSUMPTIONS = [
    "attribute values are non-negative integers (negative ones raise in encode_raw; not generated)",
    "the communication parameter object is a record in the dictionary; the mapping object is an "
    "array or a record",
    "frame-format bit 29 of the COB-ID word is neither written by save() nor kept by read(); the "
    "property text does not mention it and the strict device does not police it",
    "collections: the PDOs of a device are independent of each other (a write to one PDO's objects "
    "never changes another PDO); mapped objects are not themselves PDO parameter objects "
    "(indices 1400h-1BFFh are not generated as mapped objects)",
]
RULE = ("ops `run …`: COB-IDs over 11/29-bit boundaries, all 256 transmission types, all 8 "
        "present/absent patterns of subs 3/5/6, mappings of 0..8 objects, PDO numbers "
        "{1,2,4,5,256,512} and out-of-range ones, R and T, configuration from attributes / "
        "dictionary (value, default, neither) / live device, devices starting enabled with "
        "another mapping, plus the error paths (fault injection at every write position, "
        "fixed-count devices, missing dictionary entries, out-of-range values, unmappable "
        "objects, over-long mappings, curtis_hack); ops `coll …`: 1..4 PDOs per node (R and T, "
        "numbers out of 1..512, listed in any order), each untouched / set up by attributes / read "
        "from the device / read from the dictionary, optionally a collection read first, saved "
        "through the maps, node.rpdo, node.tpdo, both, node.pdo or load_configuration, read back "
        "into a fresh node through the same five ways, plus write/read faults and one PDO of the "
        "collection outside the domain; ops `subs …`: the subscriber table before the call as an "
        "input (no entry / empty list / application listener / map of a second node object on the "
        "same COB-ID / the map itself), entry points map|rpdo|tpdo|both|pdo x subscribe()|read()|"
        "save() and setup_pdos(upload=False); non-trivial = save and read-back both completed "
        "(subs: the call completed)")

logging.getLogger("canopen").setLevel(logging.CRITICAL + 1)

NV = 1 << 31          # CiA 301: PDO does not exist / not valid
NORTR = 1 << 30       # CiA 301: no RTR allowed
COM_SIZE = {0: 1, 1: 4, 2: 1, 3: 2, 4: 1, 5: 2, 6: 1}
COM_TYPE = {1: od.UNSIGNED32, 3: od.UNSIGNED16, 5: od.UNSIGNED16}


# ---------------------------------------------------------------- parsing of the op line
def onat(s):
    return None if s == "-" else int(s)


def lst(s, sep):
    return [] if s == "-" else s.split(sep)


class Op:
    def __init__(self, op):
        a = op.split(" ")
        if a[0] != "run" or len(a) != 17:
            raise ValueError("bad-op")
        (_, self.dir, n, nid, self.src, cur, cfg, mp, odcom, odmap, oa, ob, dev, ents, mappable,
         wf, rf) = a
        self.n, self.nid, self.curtis = int(n), int(nid), cur == "1"
        c = [onat(x) for x in cfg.split(",")]
        self.cob, self.enabled, self.rtr, self.tt, self.inh, self.ev, self.sync = c
        self.enabled, self.rtr = bool(self.enabled), bool(self.rtr)
        self.map = [tuple(int(x) for x in e.split(".")) for e in lst(mp, ";")]
        self.odcom = [tuple(onat(x) for x in e.split(":")) for e in lst(odcom, ";")]
        kind, _, rest = odmap.partition("/")
        self.map_is_array = kind == "A"
        self.odmap = [tuple(onat(x) for x in e.split(":")) for e in lst(rest, ";")]
        self.objsA, self.objsB = self._objs(oa), self._objs(ob)
        d = [onat(x) for x in dev.split(",")]
        self.dev = d
        self.entries = [int(x) for x in lst(ents, ",")]
        self.mappable = [int(x) for x in lst(mappable, ",")]
        self.wf = None if wf == "-" else tuple(int(x) for x in wf.split(","))
        self.rf = None if rf == "-" else tuple(int(x) for x in rf.split(","))
        base_com, base_map = (0x1800, 0x1A00) if self.dir == "T" else (0x1400, 0x1600)
        self.com_idx, self.map_idx = base_com + self.n - 1, base_map + self.n - 1

    @staticmethod
    def _objs(s):
        out = []
        for e in lst(s, ";"):
            i, _, subs = e.partition(":")
            out.append((int(i), [int(x) for x in subs.split(",")] if subs else None))
        return out


# ------------------------------------------------------------------ the strict device (peer)
class StrictPdoDevice:
    """CiA 301 §7.5.2.35-38 for one PDO; independent of the Lean spec."""

    def __init__(self, com_idx, map_idx, cobword, tt, s3, s5, s6, count, fixed, entries, mappable):
        self.com_idx, self.map_idx = com_idx, map_idx
        self.com = {1: cobword, 2: tt}
        for sub, v in ((3, s3), (5, s5), (6, s6)):
            if v is not None:
                self.com[sub] = v
        self.count = count
        self.entries = list(entries)
        self.mappable = set(mappable)
        self.fixed = bool(fixed)

    def exists_and_valid(self):
        return not (self.com[1] >> 31) & 1

    def download(self, idx, sub, data):
        """returns None or an abort code"""
        v = int.from_bytes(data, "little")
        if idx == self.com_idx:
            if sub == 0:
                return 0x06010002
            if sub not in self.com:
                return 0x06090011
            if len(data) != COM_SIZE[sub]:
                return 0x06070010
            if sub == 1:
                stays_valid = self.exists_and_valid() and not (v >> 31) & 1
                if stays_valid and (v & 0x3FFFFFFF) != (self.com[1] & 0x3FFFFFFF):
                    return 0x06090030
            elif self.exists_and_valid():
                return 0x08000022
            self.com[sub] = v
            return None
        if idx == self.map_idx:
            if sub == 0:
                if len(data) != 1:
                    return 0x06070010
                if self.fixed:
                    return 0x06010002
                if self.exists_and_valid():
                    return 0x08000022
                if v > len(self.entries):
                    return 0x06090031
                if sum(w & 0xFF for w in self.entries[:v]) > 64:
                    return 0x06040042
                self.count = v
                return None
            if sub > len(self.entries):
                return 0x06090011
            if len(data) != 4:
                return 0x06070010
            if self.exists_and_valid():
                return 0x08000022
            if self.count != 0 and not self.fixed:
                return 0x06010000
            if v not in self.mappable:
                return 0x06040041
            self.entries[sub - 1] = v
            return None
        return 0x06020000

    def upload(self, idx, sub):
        """returns bytes or an abort code"""
        if idx == self.com_idx:
            if sub == 0:
                return bytes([max(self.com)])
            if sub not in self.com:
                return 0x06090011
            return self.com[sub].to_bytes(COM_SIZE[sub], "little")
        if idx == self.map_idx:
            if sub == 0:
                return self.count.to_bytes(1, "little")
            if sub > len(self.entries):
                return 0x06090011
            return self.entries[sub - 1].to_bytes(4, "little")
        return 0x06020000

    def image(self):
        o = lambda s: str(self.com[s]) if s in self.com else "-"  # noqa: E731
        ents = ",".join(str(e) for e in self.entries) if self.entries else "-"
        return f"{self.com[1]},{self.com[2]},{o(3)},{o(5)},{o(6)},{self.count}/{ents}"


class SdoServer:
    """Minimal conformant SDO server (expedited and segmented) in front of a device; logs every
    completed upload/download as the device saw it and injects the requested faults."""

    def __init__(self, node_id, device, wf, rf):
        self.rx, self.tx = 0x600 + node_id, 0x580 + node_id
        self.dev, self.wf, self.rf = device, wf, rf
        self.nw = self.nr = 0
        self.log = []
        self.state = None

    def _abort(self, idx, sub, code):
        self.state = None
        return [(self.tx, struct.pack("<BHBL", 0x80, idx, sub, code))]

    def _download(self, idx, sub, data):
        self.nw += 1
        if self.wf and self.nw == self.wf[0]:
            code = self.wf[1]
        else:
            code = self.dev.download(idx, sub, data)
        val = int.from_bytes(data, "little")
        self.log.append(f"w{idx}.{sub}.{len(data)}.{val}=" + ("ok" if code is None else f"a{code}"))
        return code

    def _upload(self, idx, sub):
        self.nr += 1
        if self.rf and self.nr == self.rf[0]:
            res = self.rf[1]
        else:
            res = self.dev.upload(idx, sub)
        if isinstance(res, int):
            self.log.append(f"r{idx}.{sub}=a{res}")
        else:
            self.log.append(f"r{idx}.{sub}={int.from_bytes(res, 'little')}")
        return res

    def on_frame(self, can_id, data):
        if can_id != self.rx or len(data) != 8:
            return []
        cmd = data[0]
        ccs = cmd >> 5
        if ccs == 1:                                    # initiate download
            idx, sub = struct.unpack_from("<HB", data, 1)
            if cmd & 2:                                 # expedited
                n = 4 - ((cmd >> 2) & 3) if cmd & 1 else 4
                code = self._download(idx, sub, bytes(data[4:4 + n]))
                if code is not None:
                    return self._abort(idx, sub, code)
                return [(self.tx, struct.pack("<BHB4x", 0x60, idx, sub))]
            self.state = ["dl", idx, sub, bytearray(), 0]
            return [(self.tx, struct.pack("<BHB4x", 0x60, idx, sub))]
        if ccs == 0:                                    # download segment
            if not self.state or self.state[0] != "dl":
                return self._abort(0, 0, 0x05040001)
            _, idx, sub, buf, tog = self.state
            if (cmd >> 4) & 1 != tog:
                return self._abort(idx, sub, 0x05030000)
            buf += data[1:8 - ((cmd >> 1) & 7)]
            self.state[4] = tog ^ 1
            if cmd & 1:
                self.state = None
                code = self._download(idx, sub, bytes(buf))
                if code is not None:
                    return self._abort(idx, sub, code)
            return [(self.tx, bytes([0x20 | (tog << 4)]) + bytes(7))]
        if ccs == 2:                                    # initiate upload
            idx, sub = struct.unpack_from("<HB", data, 1)
            res = self._upload(idx, sub)
            if isinstance(res, int):
                return self._abort(idx, sub, res)
            if 1 <= len(res) <= 4:
                c = 0x43 | ((4 - len(res)) << 2)
                return [(self.tx, struct.pack("<BHB", c, idx, sub) + res.ljust(4, b"\0"))]
            self.state = ["ul", idx, sub, bytes(res), 0]
            return [(self.tx, struct.pack("<BHBL", 0x41, idx, sub, len(res)))]
        if ccs == 3:                                    # upload segment
            if not self.state or self.state[0] != "ul":
                return self._abort(0, 0, 0x05040001)
            _, idx, sub, buf, tog = self.state
            if (cmd >> 4) & 1 != tog:
                return self._abort(idx, sub, 0x05030000)
            seg, rest = buf[:7], buf[7:]
            last = 0 if rest else 1
            self.state = None if last else ["ul", idx, sub, rest, tog ^ 1]
            c = (tog << 4) | ((7 - len(seg)) << 1) | last
            return [(self.tx, bytes([c]) + seg.ljust(7, b"\0"))]
        if ccs == 4:                                    # abort from the client
            self.state = None
            return []
        return self._abort(0, 0, 0x05040001)


class FakeNetwork(canopen.Network):
    """Network whose bus is the SDO server: every sent frame is answered synchronously."""

    def __init__(self, server):
        super().__init__()
        self.server = server
        self.sent = 0

    def send_message(self, can_id, data, remote=False):
        self.sent += 1
        for cid, payload in self.server.on_frame(can_id, bytes(data)):
            self.notify(cid, bytearray(payload), 0.0)


# ------------------------------------------------------------------------- building the nodes
def build_od(o, objs):
    d = od.ObjectDictionary()
    rec = od.ODRecord("PDO communication parameter", o.com_idx)
    for sub, val, dflt in o.odcom:
        v = od.ODVariable(f"com{sub}", o.com_idx, sub)
        v.data_type = COM_TYPE.get(sub, od.UNSIGNED8)
        v.value, v.default = val, dflt
        rec.add_member(v)
    d.add_object(rec)
    mp = (od.ODArray if o.map_is_array else od.ODRecord)("PDO mapping parameter", o.map_idx)
    for sub, val, dflt in o.odmap:
        v = od.ODVariable(f"map{sub}", o.map_idx, sub)
        v.data_type = od.UNSIGNED8 if sub == 0 else od.UNSIGNED32
        v.value, v.default = val, dflt
        mp.add_member(v)
    d.add_object(mp)
    for idx, subs in objs:
        if idx in d:                      # first listing wins (as in the model's lookup)
            continue
        if subs is None:
            v = od.ODVariable(f"obj{idx:x}", idx, 0)
            v.data_type = od.UNSIGNED32
            d.add_object(v)
        else:
            r = od.ODRecord(f"rec{idx:x}", idx)
            for s in subs:
                v = od.ODVariable(f"m{s}", idx, s)
                v.data_type = od.UNSIGNED32
                r.add_member(v)
            d.add_object(r)
    return d


def make_node(o, objs, server):
    node = canopen.RemoteNode(o.nid, build_od(o, objs))
    node.sdo.RESPONSE_TIMEOUT = 0.001
    node.curtis_hack = o.curtis
    net = FakeNetwork(server)
    net.add_node(node)
    pm = (node.tpdo if o.dir == "T" else node.rpdo)[o.n]
    return node, net, pm


def knows(objs, idx, sub):
    for i, subs in objs:
        if i == idx:
            return subs is None or sub in subs
    return False


def set_attributes(o, pm):
    pm.cob_id, pm.enabled, pm.rtr_allowed = o.cob, o.enabled, o.rtr
    pm.trans_type, pm.inhibit_time, pm.event_timer, pm.sync_start_value = o.tt, o.inh, o.ev, o.sync
    pm.clear()
    for idx, sub, ln in o.map:
        if knows(o.objsA, idx, sub) and idx not in (o.com_idx, o.map_idx):
            pm.add_variable(idx, sub, ln)            # the public way
        else:                                        # an object the dictionary does not list
            var = PdoVariable(od.ODVariable("x", idx, sub))
            var.pdo_parent, var.offset, var.length = pm, pm.length, ln
            pm.map.append(var)
            pm.length += ln


def sv(x):
    return "-" if x is None else str(int(x))


def show_cfg(pm):
    m = ";".join(f"{v.index}.{v.subindex}.{v.length}" for v in pm.map) if pm.map else "-"
    return (f"{sv(pm.cob_id)},{int(bool(pm.enabled))},{int(bool(pm.rtr_allowed))},{sv(pm.trans_type)},"
            f"{sv(pm.inhibit_time)},{sv(pm.event_timer)},{sv(pm.sync_start_value)}/{m}")


def show_subs(net, pm):
    ids = sorted(c for c, cbs in net.subscribers.items() if pm.on_message in cbs)
    return ",".join(str(c) for c in ids) if ids else "-"


def outcome(fn):
    try:
        fn()
        return "ok"
    except SdoAbortedError as e:
        return f"abort:{e.code}"
    except Exception:
        return "local"


# ------------------------------------------------------- collection operations (`coll ...`)
class MapOp:
    """one PDO of a collection operation; carries the attributes the single-PDO helpers
    (expected_source_cfg, in_domain, expected_writes, ...) look at"""
    curtis = False

    def __init__(self, tok, c):
        f = tok.split("~")
        if len(f) != 10 or f[0] not in ("R", "T") or f[2] not in ("u", "a", "d", "o"):
            raise ValueError("bad-op")
        self.dir, n, self.how, cfg, mp, odcom, odmap, dev, ents, mappable = f
        self.n, self.nid = int(n), c.nid
        cc = [onat(x) for x in cfg.split(",")]
        self.cob, self.enabled, self.rtr, self.tt, self.inh, self.ev, self.sync = cc
        self.enabled, self.rtr = bool(self.enabled), bool(self.rtr)
        self.map = [tuple(int(x) for x in e.split(".")) for e in lst(mp, ";")]
        self.odcom = [tuple(onat(x) for x in e.split(":")) for e in lst(odcom, ";")]
        kind, _, rest = odmap.partition("/")
        if kind not in ("A", "R"):
            raise ValueError("bad-op")
        self.map_is_array = kind == "A"
        self.odmap = [tuple(onat(x) for x in e.split(":")) for e in lst(rest, ";")]
        self.dev = [onat(x) for x in dev.split(",")]
        if len(self.dev) != 7 or any(self.dev[i] is None for i in (0, 1, 5, 6)):
            raise ValueError("bad-op")
        self.entries = [int(x) for x in lst(ents, ",")]
        self.mappable = [int(x) for x in lst(mappable, ",")]
        self.objsA, self.objsB, self.wf, self.rf = c.objsA, c.objsB, c.wf, c.rf
        base_com, base_map = (0x1800, 0x1A00) if self.dir == "T" else (0x1400, 0x1600)
        self.com_idx, self.map_idx = base_com + self.n - 1, base_map + self.n - 1
        self.key = f"{self.dir}{self.n}"
        self.src = None          # filled in by CollOp: where node A's attributes come from


COLLS = ("r", "t", "c", "p")


class CollOp:
    def __init__(self, op):
        a = op.split(" ")
        if a[0] != "coll" or len(a) < 10:
            raise ValueError("bad-op")
        _, nid, self.pre, self.save, self.read, oa, ob, wf, rf = a[:9]
        self.nid = int(nid)
        if self.pre != "-" and (len(self.pre) != 2 or self.pre[0] not in "do" or self.pre[1] not in COLLS):
            raise ValueError("bad-op")
        if self.save not in COLLS + ("m", "l") or self.read not in COLLS + ("m",):
            raise ValueError("bad-op")
        self.objsA, self.objsB = Op._objs(oa), Op._objs(ob)
        self.wf = None if wf == "-" else tuple(int(x) for x in wf.split(","))
        self.rf = None if rf == "-" else tuple(int(x) for x in rf.split(","))
        self.maps = [MapOp(t, self) for t in a[9:]]
        if len({m.key for m in self.maps}) != len(self.maps):
            raise ValueError("bad-op")

    # which maps a call on <x> visits, in the order CiA 301 numbers them (= the order the
    # dictionary lists their objects): RPDOs by number, then TPDOs by number
    def visited(self, x):
        if x == "m":
            return list(self.maps)
        dirs = {"r": "R", "t": "T"}.get(x, "RT")
        return sorted((m for m in self.maps if m.dir in dirs and 1 <= m.n <= 512),
                      key=lambda m: (m.dir == "T", m.n))


def build_od_coll(c, objs):
    d = od.ObjectDictionary()
    for o in c.maps:
        rec = od.ODRecord(f"PDO {o.key} communication parameter", o.com_idx)
        for sub, val, dflt in o.odcom:
            v = od.ODVariable(f"com{sub}", o.com_idx, sub)
            v.data_type = COM_TYPE.get(sub, od.UNSIGNED8)
            v.value, v.default = val, dflt
            rec.add_member(v)
        d.add_object(rec)
        mp = (od.ODArray if o.map_is_array else od.ODRecord)(f"PDO {o.key} mapping parameter", o.map_idx)
        for sub, val, dflt in o.odmap:
            v = od.ODVariable(f"map{sub}", o.map_idx, sub)
            v.data_type = od.UNSIGNED8 if sub == 0 else od.UNSIGNED32
            v.value, v.default = val, dflt
            mp.add_member(v)
        d.add_object(mp)
    for idx, subs in objs:
        if idx in d:
            continue
        if subs is None:
            v = od.ODVariable(f"obj{idx:x}", idx, 0)
            v.data_type = od.UNSIGNED32
            d.add_object(v)
        else:
            r = od.ODRecord(f"rec{idx:x}", idx)
            for s in subs:
                v = od.ODVariable(f"m{s}", idx, s)
                v.data_type = od.UNSIGNED32
                r.add_member(v)
            d.add_object(r)
    return d


class MultiPdoDevice:
    """a device with several PDOs: every SDO access goes to the PDO owning the index"""

    def __init__(self, devs):
        self.devs = devs

    def _owner(self, idx):
        for d in self.devs:
            if idx in (d.com_idx, d.map_idx):
                return d
        return None

    def download(self, idx, sub, data):
        d = self._owner(idx)
        return 0x06020000 if d is None else d.download(idx, sub, data)

    def upload(self, idx, sub):
        d = self._owner(idx)
        return 0x06020000 if d is None else d.upload(idx, sub)


def make_node_coll(c, objs, server):
    node = canopen.RemoteNode(c.nid, build_od_coll(c, objs))
    node.sdo.RESPONSE_TIMEOUT = 0.001
    net = FakeNetwork(server)
    net.add_node(node)
    pms = [(node.tpdo if o.dir == "T" else node.rpdo)[o.n] for o in c.maps]
    return node, net, pms


def call_on(node, c, pms, x, fn):
    if x == "m":
        for pm in pms:
            fn(pm)
    elif x == "r":
        fn(node.rpdo)
    elif x == "t":
        fn(node.tpdo)
    elif x == "c":
        fn(node.rpdo)
        fn(node.tpdo)
    else:
        fn(node.pdo)


def show_maps(c, net, pms):
    return "|".join(f"{o.key}:{show_cfg(pm)}:{show_subs(net, pm)}" for o, pm in zip(c.maps, pms))


def run_coll(op):
    try:
        c = CollOp(op)
    except Exception:
        return "bad-op"
    devs = [StrictPdoDevice(o.com_idx, o.map_idx, *o.dev, o.entries, o.mappable) for o in c.maps]
    server = SdoServer(c.nid, MultiPdoDevice(devs), c.wf, c.rf)
    try:
        nodeA, netA, pmsA = make_node_coll(c, c.objsA, server)
    except (KeyError, IndexError):
        return "no-slot"

    def phase_a():
        if c.pre != "-":
            from_od = c.pre[0] == "o"
            call_on(nodeA, c, pmsA, c.pre[1], lambda x: x.read(from_od=from_od))
        for o, pm in zip(c.maps, pmsA):
            if o.how == "a":
                set_attributes(o, pm)
            elif o.how == "d":
                pm.read()
            elif o.how == "o":
                pm.read(from_od=True)
        if c.save == "l":
            nodeA.load_configuration()
        else:
            call_on(nodeA, c, pmsA, c.save, lambda x: x.save())

    ra = outcome(phase_a)
    a_txt = f"A=ok mapsA={show_maps(c, netA, pmsA)}" if ra == "ok" else f"A={ra} mapsA=-"
    log_a = ",".join(server.log) if server.log else "-"
    img = "|".join(d.image() for d in devs)
    server.log = []
    nodeB, netB, pmsB = make_node_coll(c, c.objsB, server)
    rb = outcome(lambda: call_on(nodeB, c, pmsB, c.read, lambda x: x.read()))
    b_txt = f"B=ok mapsB={show_maps(c, netB, pmsB)}" if rb == "ok" else f"B={rb} mapsB=-"
    log_b = ",".join(server.log) if server.log else "-"
    return f"{a_txt} log={log_a} dev={img} {b_txt} logB={log_b}"


# ------------------------------------------------- subscription operations (`subs ...`)
MASK29 = 0x1FFFFFFF


class SubsOp(CollOp):
    """subs <nodeid> <X><act> <objs> <prior> <pdo> [<pdo> ...]"""

    def __init__(self, op):
        a = op.split(" ")
        if a[0] != "subs" or len(a) < 6 or len(a[2]) != 2:
            raise ValueError("bad-op")
        self.nid = int(a[1])
        self.x, self.act = a[2][0], a[2][1]
        if self.x not in COLLS + ("m", "4") or self.act not in "srv" or (self.x == "4" and self.act != "s"):
            raise ValueError("bad-op")
        self.pre, self.save, self.read = "-", self.x, self.x
        self.objsA = self.objsB = Op._objs(a[3])
        self.wf = self.rf = None
        self.maps = [MapOp(t, self) for t in a[5:]]
        if len({m.key for m in self.maps}) != len(self.maps) or any(m.how not in "ua" for m in self.maps):
            raise ValueError("bad-op")
        self.prior = []
        for e in lst(a[4], ";"):
            cob, _, toks = e.partition(":")
            toks = toks.split(",") if toks else []
            for t in toks:
                if not (t[0] in "AL" and t[1:].isdigit()) and not (t[0] == "S" and t[1] in "RT" and t[2:].isdigit()):
                    raise ValueError("bad-op")
            self.prior.append((int(cob), toks))

    def ids(self):
        """the CAN ids whose subscriber lists are shown"""
        s = {cob for cob, _ in self.prior}
        s |= {o.cob for o in self.maps if o.cob is not None}
        s |= {o.dev[0] & MASK29 for o in self.maps}
        return sorted(s)

    def visited_maps(self):
        return self.visited("p" if self.x == "4" else self.x)


def other_od():
    d = od.ObjectDictionary()
    for k in range(4):
        rec = od.ODRecord(f"TPDO{k + 1} communication parameter", 0x1800 + k)
        for sub in (0, 1, 2):
            v = od.ODVariable(f"com{sub}", 0x1800 + k, sub)
            v.data_type = COM_TYPE.get(sub, od.UNSIGNED8)
            rec.add_member(v)
        d.add_object(rec)
        arr = od.ODArray(f"TPDO{k + 1} mapping parameter", 0x1A00 + k)
        for sub in (0, 1):
            v = od.ODVariable(f"map{sub}", 0x1A00 + k, sub)
            v.data_type = od.UNSIGNED8 if sub == 0 else od.UNSIGNED32
            arr.add_member(v)
        d.add_object(arr)
    return d


def run_subs(op):
    try:
        c = SubsOp(op)
    except Exception:
        return "bad-op"
    devs = [StrictPdoDevice(o.com_idx, o.map_idx, *o.dev, o.entries, o.mappable) for o in c.maps]
    server = SdoServer(c.nid, MultiPdoDevice(devs), None, None)
    try:
        if c.x == "4":
            from canopen.profiles.p402 import BaseNode402
            node = BaseNode402(c.nid, build_od_coll(c, c.objsA))
        else:
            node = canopen.RemoteNode(c.nid, build_od_coll(c, c.objsA))
        node.sdo.RESPONSE_TIMEOUT = 0.001
        net = FakeNetwork(server)
        net.add_node(node)
        pms = [(node.tpdo if o.dir == "T" else node.rpdo)[o.n] for o in c.maps]
    except (KeyError, IndexError):
        return "no-slot"
    # ---- the subscriber table before the call, built through the public API
    named = []                       # (callback, name)
    state = {"other": None}

    def cb_of(tok, cob):
        for cb, name in named:
            if name == tok:
                if tok[0] == "L":    # the other node's map now (also) listens on this COB-ID
                    cb.__self__.cob_id = cob
                return cb
        if tok[0] == "A":
            def listener(can_id, data, timestamp):
                pass
            cb = listener
        elif tok[0] == "L":          # PDO linking: a map of another node object on the same id
            if state["other"] is None:
                state["other"] = canopen.RemoteNode(c.nid % 127 + 1, other_od())
                net.add_node(state["other"])
            pm = state["other"].tpdo[int(tok[1:])]
            pm.cob_id, pm.enabled = cob, True
            cb = pm.on_message
        else:
            cb = pms[[o.key for o in c.maps].index(tok[1:])].on_message
        named.append((cb, tok))
        return cb

    try:
        for cob, toks in c.prior:
            if not toks:             # subscribed and unsubscribed again: the key stays
                def gone(can_id, data, timestamp):
                    pass
                net.subscribe(cob, gone)
                net.unsubscribe(cob, gone)
            for t in toks:
                cb = cb_of(t, cob)
                if t[0] == "L":
                    cb.__self__.subscribe()          # the library's own PdoMap.subscribe
                else:
                    net.subscribe(cob, cb)
    except (KeyError, ValueError, IndexError):
        return "bad-op"
    for o, pm in zip(c.maps, pms):
        if not any(name == "S" + o.key for _, name in named):
            named.append((pm.on_message, "S" + o.key))

    def phase():
        for o, pm in zip(c.maps, pms):
            if o.how == "a":
                set_attributes(o, pm)
        if c.x == "4":
            node.setup_pdos(upload=False)
        elif c.act == "s":
            call_on(node, c, pms, c.x, lambda q: q.subscribe())
        elif c.act == "r":
            call_on(node, c, pms, c.x, lambda q: q.read())
        else:
            call_on(node, c, pms, c.x, lambda q: q.save())

    ra = outcome(phase)
    cfgs = "|".join(f"{o.key}:{show_cfg(pm)}" for o, pm in zip(c.maps, pms))
    a_txt = f"A=ok mapsA={cfgs}" if ra == "ok" else f"A={ra} mapsA=-"

    def name_of(cb):
        for x, name in named:
            if x == cb:
                return name
        return None

    rows = []
    for i in c.ids():          # the callbacks this operation knows by name (not the node's own services)
        rows.append(f"{i}:" + ",".join(n for n in (name_of(cb) for cb in net.subscribers.get(i, [])) if n))
    log_a = ",".join(server.log) if server.log else "-"
    return f"{a_txt} tab={';'.join(rows) if rows else '-'} log={log_a}"


def canon_impl(op, out):
    """for the comparison with the model only: the model does not say which subscriptions were
    made before a call raised"""
    if op.startswith("subs ") and out.startswith("A=") and not out.startswith("A=ok "):
        f = out.split(" ")
        return " ".join("tab=-" if t.startswith("tab=") else t for t in f)
    return out


def run_impl(op):
    if op.startswith("subs "):
        return run_subs(op)
    if op.startswith("coll "):
        return run_coll(op)
    try:
        o = Op(op)
    except Exception:
        return "bad-op"
    dv = o.dev
    device = StrictPdoDevice(o.com_idx, o.map_idx, dv[0], dv[1], dv[2], dv[3], dv[4], dv[5], dv[6],
                             o.entries, o.mappable)
    server = SdoServer(o.nid, device, o.wf, o.rf)
    try:
        nodeA, netA, pmA = make_node(o, o.objsA, server)
    except KeyError:
        return "no-slot"
    slot = f"{pmA.com_record.od.index}.{pmA.map_array.od.index}.{sv(pmA.predefined_cob_id)}"
    if o.src == "a":
        set_attributes(o, pmA)
        ra = outcome(pmA.save)
    elif o.src == "o":
        ra = outcome(nodeA.load_configuration)
    else:
        def live():
            pmA.read()
            pmA.save()
        ra = outcome(live)
    if ra == "ok":
        a_txt = f"A=ok cfgA={show_cfg(pmA)} subsA={show_subs(netA, pmA)}"
    else:
        a_txt = f"A={ra} cfgA=- subsA=-"
    log_a = ",".join(server.log) if server.log else "-"
    img = device.image()
    server.log = []
    nodeB, netB, pmB = make_node(o, o.objsB, server)
    rb = outcome(pmB.read)
    if rb == "ok":
        b_txt = f"B=ok cfgB={show_cfg(pmB)} subsB={show_subs(netB, pmB)}"
    else:
        b_txt = f"B={rb} cfgB=- subsB=-"
    log_b = ",".join(server.log) if server.log else "-"
    return f"slot={slot} {a_txt} log={log_a} dev={img} {b_txt} logB={log_b}"


# --------------------------------------------------------------------------------- the oracle
def parse_out(out):
    f = {}
    for tok in out.split(" "):
        k, _, v = tok.partition("=")
        f[k] = v
    return f


def parse_cfg(s):
    if s == "-":
        return None
    head, _, mp = s.partition("/")
    c = [onat(x) for x in head.split(",")]
    m = [tuple(int(x) for x in e.split(".")) for e in lst(mp, ";")]
    return {"cob": c[0], "enabled": bool(c[1]), "rtr": bool(c[2]), "tt": c[3], "inh": c[4],
            "ev": c[5], "sync": c[6], "map": m}


def parse_log(s):
    evs = []
    for e in lst(s, ","):
        lhs, _, res = e.partition("=")
        parts = [int(x) for x in lhs[1:].split(".")]
        evs.append((lhs[0], parts, res))
    return evs


def od_lookup(o, is_com, sub):
    """value ?? default of a dictionary entry, KeyError -> 'missing'"""
    members = o.odcom if is_com else o.odmap
    for s, val, dflt in members:
        if s == sub:
            return val if val is not None else dflt
    if not is_com and o.map_is_array and 0 < sub < 256:
        for s, val, dflt in members:
            if s == 1:
                return dflt
    return "missing"


def od_has(o, is_com, sub):
    return od_lookup(o, is_com, sub) != "missing"


def word_of(e):
    return e[0] << 16 | e[1] << 8 | e[2]


def od_knows(o, objs, idx, sub):
    """can the dictionary resolve idx:sub (the PDO's own parameter objects included)"""
    if idx == o.com_idx:
        return od_has(o, True, sub)
    if idx == o.map_idx:
        return od_has(o, False, sub)
    return knows(objs, idx, sub)


def decode_words(o, words, objs):
    m = []
    for w in words:
        e = (w >> 16, (w >> 8) & 0xFF, w & 0x7F)
        if e[0] and e[2] and od_knows(o, objs, e[0], e[1]):
            m.append(e)
    return m


def expected_source_cfg(o):
    """the configuration the property says node A must hold before save(), or None when the
    source does not describe one (then the oracle says nothing about it)"""
    if o.src == "a":
        return {"cob": o.cob, "enabled": o.enabled, "rtr": o.rtr, "tt": o.tt, "inh": o.inh,
                "ev": o.ev, "sync": o.sync, "map": list(o.map)}
    if o.src == "o":
        get = lambda c, s: od_lookup(o, c, s)  # noqa: E731
    else:
        com = {1: o.dev[0], 2: o.dev[1], 3: o.dev[2], 5: o.dev[3], 6: o.dev[4]}

        def get(c, s):
            if not od_has(o, c, s):
                return "missing"
            if c:
                v = com.get(s)
                return "missing" if v is None else v
            if s == 0:
                return o.dev[5]
            return o.entries[s - 1] if s <= len(o.entries) else "missing"
    w, tt, n = get(True, 1), get(True, 2), get(False, 0)
    if any(x in ("missing", None) for x in (w, tt, n)):
        return None
    words = [get(False, i) for i in range(1, n + 1)]
    if any(x in ("missing", None) for x in words):
        return None
    opt = {}
    for key, sub in (("inh", 3), ("ev", 5), ("sync", 6)):
        v = get(True, sub) if tt >= 254 else None
        opt[key] = None if v == "missing" else v
    return {"cob": w & 0x1FFFFFFF, "enabled": not w & NV, "rtr": not w & NORTR, "tt": tt,
            "map": decode_words(o, words, o.objsA), **opt}


def in_domain(o, cfg):
    """the hypotheses of the property: a well-formed configuration, a dictionary that describes the
    device, a strict device able to hold the mapping, no injected faults"""
    if o.wf or o.rf or o.dev[6] or o.curtis or cfg is None:
        return False
    if not (1 <= o.n <= 512) or cfg["cob"] is None or not 0 <= cfg["cob"] < (1 << 29):
        return False
    if cfg["tt"] is None or not 0 <= cfg["tt"] <= 255:
        return False
    if not (od_has(o, True, 1) and od_has(o, True, 2) and od_has(o, False, 0)):
        return False
    for key, sub, di, lim in (("inh", 3, 2, 1 << 16), ("ev", 5, 3, 1 << 16), ("sync", 6, 4, 1 << 8)):
        if cfg[key] is not None:
            if not od_has(o, True, sub) or o.dev[di] is None or not 0 <= cfg[key] < lim:
                return False
    m = cfg["map"]
    if len(m) > len(o.entries) or sum(e[2] for e in m) > 64:
        return False
    for i, e in enumerate(m, 1):
        if not (1 <= e[0] < 65536 and 0 <= e[1] < 256 and 1 <= e[2] <= 64):
            return False
        if word_of(e) not in o.mappable or not od_has(o, False, i):
            return False
        if not od_knows(o, o.objsB, e[0], e[1]):
            return False
    return True


def expected_writes(o, cfg):
    ci, mi = o.com_idx, o.map_idx
    nortr = 0 if cfg["rtr"] else NORTR
    ws = [(ci, 1, 4, cfg["cob"] | NV | nortr)]
    for key, sub in (("tt", 2), ("inh", 3), ("ev", 5), ("sync", 6)):
        if cfg[key] is not None:
            ws.append((ci, sub, COM_SIZE[sub], cfg[key]))
    ws.append((mi, 0, 1, 0))
    for i, e in enumerate(cfg["map"], 1):
        ws.append((mi, i, 4, word_of(e)))
    ws.append((mi, 0, 1, len(cfg["map"])))
    if cfg["enabled"]:
        ws.append((ci, 1, 4, cfg["cob"] | nortr))
    return ws


def view(o, **kw):
    """the same PDO looked at with other attributes (source of the configuration, dictionary)"""
    v = object.__new__(MapOp)
    v.__dict__.update(o.__dict__)
    v.__dict__.update(kw)
    return v


def parse_maps(s):
    """'R1:<cfg>:<subs>|...' -> {key: (cfg dict, subs text)}"""
    res = {}
    if s == "-":
        return None
    for tok in s.split("|"):
        key, cfg, subs = tok.split(":")
        res[key] = (parse_cfg(cfg), subs)
    return res


def sub_text(cobs):
    return ",".join(str(x) for x in sorted(set(cobs))) if cobs else "-"


def check_one_pdo_order(o, writes, src_cfg):
    """the safe procedure on the writes one PDO received, whatever the device answered"""
    ci, mi = o.com_idx, o.map_idx
    if writes:
        p, _ = writes[0]
        if (p[0], p[1]) != (ci, 1) or not p[3] & NV:
            return f"[order] {o.key}: first write is {p[0]:#x}:{p[1]} := {p[3]:#x}, not an invalidation of the PDO"
        if src_cfg is not None and src_cfg["cob"] is not None:
            exp = src_cfg["cob"] | NV | (0 if src_cfg["rtr"] else NORTR)
            if p[3] != exp:
                return f"[encoding] {o.key}: first write {p[3]:#x}, CiA 301 encoding of the configuration is {exp:#x}"
    zero_at = [i for i, (p, _) in enumerate(writes) if (p[0], p[1]) == (mi, 0) and p[3] == 0]
    entry_at = [i for i, (p, _) in enumerate(writes) if p[0] == mi and p[1] >= 1]
    count_at = [i for i, (p, _) in enumerate(writes) if (p[0], p[1]) == (mi, 0) and i not in zero_at[:1]]
    if entry_at and (not zero_at or zero_at[0] > entry_at[0]):
        return f"[order] {o.key}: a mapping entry was written before the number of entries was set to 0"
    if count_at and entry_at and count_at[0] < entry_at[-1]:
        return f"[order] {o.key}: the number of entries was set before the last mapping entry was written"
    for i, (p, _) in enumerate(writes):
        if (p[0], p[1]) == (ci, 1) and not p[3] & NV:
            if i != len(writes) - 1:
                return f"[order] {o.key}: the PDO was validated before the last write"
            if src_cfg is not None and not src_cfg["enabled"]:
                return f"[order] {o.key}: the PDO was validated although the configuration is disabled"
    return None


def coll_plan(c):
    """where node A's attributes of each PDO come from (o.src; None = never read, never set up),
    the configuration the property says each PDO holds before save(), and the PDOs save() has to
    write, in the order of the collection"""
    pre_vis = c.visited(c.pre[1]) if c.pre != "-" else []
    pre_src = c.pre[0] if c.pre != "-" else None
    ambiguous = False
    for o in c.maps:
        o.pre = pre_src if o in pre_vis else None
        if c.save == "l":
            o.src = "o"                       # load_configuration reads everything from the dictionary
            if o.how != "u" or o.pre is not None:
                ambiguous = True              # a read over attributes that exist keeps parts of them
        elif o.how == "a":
            o.src = "a"
        elif o.how in ("d", "o"):
            o.src = o.how
            if o.pre is not None:
                ambiguous = True
        else:
            o.src = o.pre
    cfgs = {o.key: (expected_source_cfg(o) if o.src is not None else None) for o in c.maps}
    saved_order = [o for o in c.visited("p" if c.save == "l" else c.save)
                   if o.src is not None and not (cfgs[o.key] is not None and cfgs[o.key]["cob"] is None)]
    return ambiguous, saved_order, cfgs


def coll_in_domain(c, ambiguous, saved_order, cfgs):
    """no faults, every PDO that is read is readable, every PDO that is saved holds a well-formed
    configuration the strict device can take"""
    if c.wf or c.rf or ambiguous:
        return False
    for o in c.maps:
        if o.pre is not None and expected_source_cfg(view(o, src=o.pre)) is None:
            return False
        if o.src in ("d", "o") and cfgs[o.key] is None:
            return False
    return all(in_domain(o, cfgs[o.key]) for o in saved_order)


def oracle_coll(op, out):
    try:
        c = CollOp(op)
    except Exception:
        return None
    if out.startswith("HARNESS-RAISED"):
        return "[harness] " + out
    if out in ("no-slot", "bad-op"):
        if out == "no-slot" and all(1 <= o.n <= 512 for o in c.maps):
            return "[numbering] a PDO with a number in 1..512 is not reachable through node.rpdo / node.tpdo"
        return None
    f = parse_out(out)
    ambiguous, saved_order, cfgs = coll_plan(c)
    # ---- the write sequence the device saw
    log = parse_log(f["log"])
    writes = [(p, res) for k, p, res in log if k == "w"]
    owner = {}
    for o in c.maps:
        owner[o.com_idx] = owner[o.map_idx] = o
    seq = []                                   # PDOs in the order their blocks of writes appear
    per = {o.key: [] for o in c.maps}
    for p, res in writes:
        o = owner.get(p[0])
        if o is None:
            return f"[order] write to {p[0]:#x}:{p[1]}, an object of no PDO of this node"
        if not seq or seq[-1] is not o:
            if o in seq:
                return f"[order] the writes of {o.key} are interleaved with those of another PDO"
            seq.append(o)
        per[o.key].append((p, res))
    for o in seq:
        if o not in saved_order:
            why = "was never read or set up" if o.src is None else "is not part of the collection that was saved"
            return f"[untouched] {o.key} {why}, yet it was written: {per[o.key][0][0]}"
    pos = [saved_order.index(o) for o in seq]
    if pos != sorted(pos):
        return ("[order] PDOs saved in the order " + ",".join(o.key for o in seq)
                + ", the collection lists them as " + ",".join(o.key for o in saved_order))
    for o in seq:
        w = check_one_pdo_order(o, per[o.key], None if ambiguous else cfgs[o.key])
        if w:
            return w
    # ---- in the property's domain: accepted, exactly the procedure per PDO, reads back identically
    if not coll_in_domain(c, ambiguous, saved_order, cfgs):
        return None
    if f["A"] != "ok":
        return f"[accept] saving well-formed configurations to a strict device failed: {f['A']}"
    bad = [(p, res) for p, res in writes if res != "ok"]
    if bad:
        return f"[accept] the strict device refused {bad[0][0]} with {bad[0][1]}"
    first_w = next((i for i, (k, _, _) in enumerate(log) if k == "w"), len(log))
    if any(k == "r" for k, _, _ in log[first_w:]):
        return "[order] save() read from the device although nothing was refused"
    for o in saved_order:
        got = [tuple(p) for p, _ in per[o.key]]
        exp = expected_writes(o, cfgs[o.key])
        if got != exp:
            k = next((i for i, (a, b) in enumerate(zip(got, exp)) if a != b), min(len(got), len(exp)))
            return (f"[order] {o.key}: write #{k + 1} is {got[k] if k < len(got) else None}, the safe procedure "
                    f"has {exp[k] if k < len(exp) else None}")
    maps_a = parse_maps(f["mapsA"])
    for o in c.maps:
        cobs = []
        if o.pre is not None:
            pc = expected_source_cfg(view(o, src=o.pre))
            if pc["enabled"]:
                cobs.append(pc["cob"])
        cfg = cfgs[o.key]
        if cfg is not None and cfg["enabled"] and (o.src in ("d", "o") or o in saved_order):
            cobs.append(cfg["cob"])
        if maps_a[o.key][1] != sub_text(cobs):
            return (f"[subscribe] {o.key}: node A subscribed to {maps_a[o.key][1]}, "
                    f"expected {sub_text(cobs)}")
    # ---- read-back of the collection into a fresh node
    read_b = c.visited(c.read)
    want = {}
    for o in read_b:
        if o in saved_order:
            want[o.key] = (cfgs[o.key], True)
        else:                                  # not written: the device still holds its prior state
            prior = expected_source_cfg(view(o, src="d", objsA=c.objsB))
            if prior is None:
                return None                    # the fresh node cannot read that PDO at all
            want[o.key] = (prior, False)
    if f["B"] != "ok":
        return f"[readback] a fresh node could not read the collection back: {f['B']}"
    maps_b = parse_maps(f["mapsB"])
    for o in read_b:
        cfg, was_saved = want[o.key]
        cb, subs_b = maps_b[o.key]
        for k in ("cob", "enabled", "rtr", "tt", "map"):
            if cb[k] != cfg[k]:
                what = "saved" if was_saved else "the device (never written) holds"
                return f"[readback] {o.key}: {k} reads back as {cb[k]!r}, {what} {cfg[k]!r}"
        if cfg["tt"] >= 254:
            for k in ("inh", "ev", "sync"):
                if cfg[k] is not None and cb[k] != cfg[k]:
                    return f"[readback] {o.key}: {k} reads back as {cb[k]!r}, expected {cfg[k]!r}"
        want_subs = str(cfg["cob"]) if cfg["enabled"] else "-"
        if subs_b != want_subs:
            return f"[subscribe] {o.key}: fresh node subscribed to {subs_b}, enabled={cfg['enabled']} cob={cfg['cob']}"
    return None


def parse_table(s):
    t = {}
    for e in lst(s, ";"):
        cob, _, names = e.partition(":")
        t[int(cob)] = names.split(",") if names else []
    return t


def oracle_subs(op, out):
    try:
        c = SubsOp(op)
    except Exception:
        return None
    if out.startswith("HARNESS-RAISED"):
        return "[harness] " + out
    if out in ("no-slot", "bad-op"):
        return None
    f = parse_out(out)
    after = parse_table(f["tab"])
    prior = {}
    for cob, toks in c.prior:
        prior.setdefault(cob, [])
        for t in toks:
            if t not in prior[cob]:
                prior[cob].append(t)
    own = {"S" + o.key: o for o in c.maps}
    # ---- whatever else happened: what was subscribed before is still there, in the same order,
    #      and nothing but this node's maps was added
    for cob, before in prior.items():
        got = after.get(cob, [])
        if got[:len(before)] != before:
            return (f"[foreign] subscribers of {cob:#x} were {before} before the call and are "
                    f"{got} after it: an earlier subscription was lost")
    for cob, got in after.items():
        for name in (got or [])[len(prior.get(cob, [])):]:
            if name not in own:
                return f"[foreign] {name} was subscribed to {cob:#x} by the call"
    if f["A"] != "ok":
        return None
    # ---- the configuration each map holds when it is asked to subscribe
    visited = c.visited_maps()
    for o in c.maps:
        if c.act == "r" and o in visited:
            cfg = expected_source_cfg(view(o, src="d"))
            if cfg is None:
                return None                   # the read should not have completed; not judged here
        elif o.how == "a":
            cfg = expected_source_cfg(view(o, src="a"))
            if c.act == "v" and o in visited and not in_domain(view(o, src="a"), cfg):
                return None
        else:
            cfg = None
        o.exp = cfg
    for o in c.maps:
        name = "S" + o.key
        want_cob = None
        if o in visited and o.exp is not None and o.exp["enabled"] and o.exp["cob"] is not None:
            want_cob = o.exp["cob"]
        for cob in c.ids():
            had = prior.get(cob, []).count(name)
            n = (after.get(cob) or []).count(name)
            if cob == want_cob:
                if n != 1:
                    return (f"[subscribe] {o.key} is enabled with COB-ID {cob:#x} but its on_message is "
                            f"{n} times among the subscribers of that id (before the call: "
                            f"{prior.get(cob, 'no entry')})")
            elif n != had:
                return (f"[subscribe] {o.key} (enabled={bool(o.exp and o.exp['enabled'])}, COB-ID "
                        f"{o.exp['cob'] if o.exp else None}) was subscribed to {cob:#x} by the call")
    return None


def oracle(op, out):
    if op.startswith("subs "):
        return oracle_subs(op, out)
    if op.startswith("coll "):
        return oracle_coll(op, out)
    try:
        o = Op(op)
    except Exception:
        return None
    if out.startswith("HARNESS-RAISED"):
        return "[harness] " + out
    if out in ("no-slot", "bad-op"):
        if out == "no-slot" and 1 <= o.n <= 512:
            return f"[numbering] PDO number {o.n} is not reachable as node.{o.dir.lower()}pdo[{o.n}]"
        return None
    f = parse_out(out)
    # numbering (CiA 301 object ranges and pre-defined connection set)
    base = 0x180 if o.dir == "T" else 0x200
    pre = str(base + (o.n - 1) * 0x100 + o.nid) if o.n <= 4 else "-"
    if not (1 <= o.n <= 512):
        return f"[numbering] PDO number {o.n} outside 1..512 was accepted"
    if f["slot"] != f"{o.com_idx}.{o.map_idx}.{pre}":
        return f"[numbering] slot {f['slot']} instead of {o.com_idx}.{o.map_idx}.{pre}"
    src_cfg = expected_source_cfg(o)
    cfg_a = parse_cfg(f["cfgA"])
    log = parse_log(f["log"])
    writes = [(p, res) for k, p, res in log if k == "w"]
    ci, mi = o.com_idx, o.map_idx
    save_started = any(p[0] in (ci, mi) for p, _ in writes)
    # ---- the safe procedure, whatever the device answered
    if writes:
        p, _ = writes[0]
        if (p[0], p[1]) != (ci, 1) or not p[3] & NV:
            return f"[order] first write is {p[0]:#x}:{p[1]} := {p[3]:#x}, not an invalidation of the PDO"
        if src_cfg is not None and src_cfg["cob"] is not None:
            exp = src_cfg["cob"] | NV | (0 if src_cfg["rtr"] else NORTR)
            if p[3] != exp:
                return f"[encoding] first write {p[3]:#x}, CiA 301 encoding of the configuration is {exp:#x}"
    zero_at = [i for i, (p, _) in enumerate(writes) if (p[0], p[1]) == (mi, 0) and p[3] == 0]
    entry_at = [i for i, (p, _) in enumerate(writes) if p[0] == mi and p[1] >= 1]
    count_at = [i for i, (p, _) in enumerate(writes) if (p[0], p[1]) == (mi, 0) and i not in zero_at[:1]]
    if entry_at and (not zero_at or zero_at[0] > entry_at[0]):
        return "[order] a mapping entry was written before the number of entries was set to 0"
    if count_at and entry_at and count_at[0] < entry_at[-1]:
        return "[order] the number of entries was set before the last mapping entry was written"
    for i, (p, _) in enumerate(writes):
        if (p[0], p[1]) == (ci, 1) and not p[3] & NV:
            if i != len(writes) - 1:
                return "[order] the PDO was validated before the last write"
            if src_cfg is not None and not src_cfg["enabled"]:
                return "[order] the PDO was validated although the configuration is disabled"
    if src_cfg is not None and not o.curtis and (o.src == "a" or o.dev[6] == 0):
        for p, _ in writes:
            if p[0] == mi and p[1] >= 1 and p[1] <= len(src_cfg["map"]):
                e = src_cfg["map"][p[1] - 1]
                if p[3] != word_of(e):
                    return (f"[encoding] mapping entry {p[1]} written as {p[3]:#x}, "
                            f"index<<16|sub<<8|len is {word_of(e):#x}")
    # ---- configuration taken from the dictionary / the live device
    if o.src in ("o", "d") and src_cfg is not None and cfg_a is not None and not o.curtis \
            and not o.rf and not o.dev[6]:
        for k in ("cob", "enabled", "rtr", "tt", "inh", "ev", "sync", "map"):
            if cfg_a[k] != src_cfg[k]:
                tag = "from_od" if o.src == "o" else "read"
                return f"[{tag}] {k} = {cfg_a[k]!r}, the source says {src_cfg[k]!r}"
    # ---- in the property's domain: accepted, exactly the procedure, reads back identically
    cfg = src_cfg
    if not in_domain(o, cfg):
        return None
    if f["A"] != "ok":
        return f"[accept] saving a well-formed configuration to a strict device failed: {f['A']}"
    bad = [(p, res) for p, res in writes if res != "ok"]
    if bad:
        return f"[accept] the strict device refused {bad[0][0]} with {bad[0][1]}"
    got = [tuple(p) for p, _ in writes]
    exp = expected_writes(o, cfg)
    if got != exp:
        k = next((i for i, (a, b) in enumerate(zip(got, exp)) if a != b), min(len(got), len(exp)))
        return (f"[order] write #{k + 1} is {got[k] if k < len(got) else None}, the safe procedure "
                f"has {exp[k] if k < len(exp) else None}")
    if any(k == "r" for k, _, _ in log) and o.src == "a":
        return "[order] save() read from the device although nothing was refused"
    want_subs = str(cfg["cob"]) if cfg["enabled"] else "-"
    if f["subsA"] != want_subs:
        return f"[subscribe] node A subscribed to {f['subsA']}, enabled={cfg['enabled']} cob={cfg['cob']}"
    if f["B"] != "ok":
        return f"[readback] a fresh node could not read the configuration back: {f['B']}"
    cb = parse_cfg(f["cfgB"])
    for k in ("cob", "enabled", "rtr", "tt", "map"):
        if cb[k] != cfg[k]:
            return f"[readback] {k} reads back as {cb[k]!r}, saved {cfg[k]!r}"
    if cfg["tt"] >= 254:
        for k in ("inh", "ev", "sync"):
            if cfg[k] is not None and cb[k] != cfg[k]:
                return f"[readback] {k} reads back as {cb[k]!r}, saved {cfg[k]!r}"
    if f["subsB"] != want_subs:
        return f"[subscribe] fresh node subscribed to {f['subsB']}, enabled={cfg['enabled']} cob={cfg['cob']}"
    _ = save_started
    return None


def signature(op, what):
    tag = what[1:what.index("]")] if what.startswith("[") and "]" in what else "other"
    a = op.split(" ")
    if a[0] in ("coll", "subs"):
        return f"{tag}:{a[0]}"
    return f"{tag}:{a[4] if len(a) > 4 else '?'}"


def nontrivial(op, out):
    if op.startswith("subs "):
        return out.startswith("A=ok ")
    return (" A=ok " in out or out.startswith("A=ok ")) and " B=ok " in out


def classify(op, out):
    a = op.split(" ")
    if out in ("no-slot", "bad-op"):
        return out
    f = parse_out(out)
    ka = f.get("A", "?").split(":")[0]
    kb = f.get("B", "?").split(":")[0]
    if a[0] == "subs":
        busy = "busy" if a[4] != "-" else "empty"
        return f"subs {a[2]} table={busy} A={ka}"
    if a[0] == "coll":
        try:
            c = CollOp(op)
            plan = coll_plan(c)
            dom = "dom" if coll_in_domain(c, *plan) else "out"
            unt = "skip" if any(o not in plan[1] for o in c.visited("p" if c.save == "l" else c.save)) else "all"
        except Exception:
            dom, unt = "?", "?"
        return f"coll save={a[3]} {unt} {dom} A={ka} B={kb}"
    try:
        o = Op(op)
        dom = "dom" if in_domain(o, expected_source_cfg(o)) else "out"
    except Exception:
        dom = "?"
    return f"src={a[4]} {dom} A={ka} B={kb}"


def shrink_coll(a):
    if a[7] != "-" or a[8] != "-":
        yield " ".join(a[:7] + ["-", "-"] + a[9:])
    maps = a[9:]
    if len(maps) > 1:
        for i in range(len(maps)):
            yield " ".join(a[:9] + maps[:i] + maps[i + 1:])
    if a[2] != "-":
        yield " ".join(a[:2] + ["-"] + a[3:])
    for i, tok in enumerate(maps):
        f = tok.split("~")
        m = lst(f[4], ";")
        if m and f[2] == "a":
            g = list(f)
            g[4] = ";".join(m[:-1]) or "-"
            yield " ".join(a[:9] + maps[:i] + ["~".join(g)] + maps[i + 1:])
        cc = f[3].split(",")
        for j in (4, 5, 6):
            if cc[j] != "-" and f[2] == "a":
                c2 = list(cc)
                c2[j] = "-"
                g = list(f)
                g[3] = ",".join(c2)
                yield " ".join(a[:9] + maps[:i] + ["~".join(g)] + maps[i + 1:])


def shrink_subs(a):
    maps = a[5:]
    if len(maps) > 1:
        for i in range(len(maps)):
            yield " ".join(a[:5] + maps[:i] + maps[i + 1:])
    pr = lst(a[4], ";")
    for i in range(len(pr)):
        yield " ".join(a[:4] + [";".join(pr[:i] + pr[i + 1:]) or "-"] + maps)
    for i, e in enumerate(pr):
        cob, _, toks = e.partition(":")
        toks = toks.split(",") if toks else []
        for j in range(len(toks)):
            e2 = cob + ":" + ",".join(toks[:j] + toks[j + 1:])
            yield " ".join(a[:4] + [";".join(pr[:i] + [e2] + pr[i + 1:])] + maps)
    for i, tok in enumerate(maps):
        f = tok.split("~")
        m = lst(f[4], ";")
        if m and f[2] == "a":
            g = list(f)
            g[4] = ";".join(m[:-1]) or "-"
            yield " ".join(a[:5] + maps[:i] + ["~".join(g)] + maps[i + 1:])


def shrink_candidates(op):
    a = op.split(" ")
    if a[0] == "subs":
        yield from shrink_subs(a)
        return
    if a[0] == "coll":
        yield from shrink_coll(a)
        return
    if len(a) != 17:
        return
    if a[15] != "-" or a[16] != "-":
        yield " ".join(a[:15] + ["-", "-"])
    m = lst(a[7], ";")
    if m:
        b = list(a)
        b[7] = ";".join(m[:-1]) or "-"
        yield " ".join(b)
    c = a[6].split(",")
    for i in (4, 5, 6):
        if c[i] != "-":
            c2 = list(c)
            c2[i] = "-"
            b = list(a)
            b[6] = ",".join(c2)
            yield " ".join(b)
    if a[2] != "1":
        b = list(a)
        b[2] = "1"
        yield " ".join(b)


# ------------------------------------------------------------------------------ generator
COBS = [0, 1, 0x7F, 0x80, 0x181, 0x201, 0x57F, 0x600, 0x7FE, 0x7FF, 0x800, 0x801, 0xFFFF,
        0x10000, 0x0FFFFFFF, 0x10000000, 0x1FFFFFFE, 0x1FFFFFFF]
IDXS = [1, 2, 0x1000, 0x1FFF, 0x2000, 0x2001, 0x6040, 0x6041, 0x60FF, 0x7FFF, 0x8000, 0xFFFE, 0xFFFF]
SUBS = [0, 0, 0, 1, 2, 7, 8, 127, 128, 254, 255]
LENS = [1, 1, 2, 3, 4, 7, 8, 8, 8, 15, 16, 16, 24, 31, 32, 32, 33, 48, 63, 64]


def on(x):
    return "-" if x is None else str(x)


def fmt_members(ms):
    return ";".join(f"{s}:{on(v)}:{on(d)}" for s, v, d in ms) if ms else "-"


def fmt_objs(objs):
    if not objs:
        return "-"
    return ";".join(str(i) if subs is None else f"{i}:{','.join(str(s) for s in subs)}"
                    for i, subs in objs)


def fmt_map(m):
    return ";".join(f"{i}.{s}.{l}" for i, s, l in m) if m else "-"


def rand_map(rng, k, budget=64):
    m, used, seen = [], 0, set()
    for _ in range(k):
        left = budget - used - (k - len(m) - 1)
        if left < 1:
            break
        ln = min(rng.choice(LENS), left)
        idx = rng.choice(IDXS) if rng.random() < 0.7 else rng.randrange(1, 0x10000)
        if 0x1400 <= idx < 0x1C00:      # a PDO parameter object: RemoteNode would take it for a PDO
            idx += 0x1000
        sub = rng.choice(SUBS) if rng.random() < 0.8 else rng.randrange(256)
        if idx in seen:
            continue
        seen.add(idx)
        m.append((idx, sub, ln))
        used += ln
    return m


def objs_for(rng, maps, com_idx, map_idx):
    """a dictionary object list knowing every mapped object (as variable or record)"""
    objs, seen = [], set()
    for m in maps:
        for idx, sub, _ in m:
            if idx in seen or idx in (com_idx, map_idx):
                continue
            seen.add(idx)
            if rng.random() < 0.5:
                objs.append((idx, None))
            else:
                objs.append((idx, sorted({sub, rng.randrange(256)})))
    return objs


class Scn:
    """a scenario under construction, rendered to an op line"""

    def __init__(self, rng, **kw):
        self.rng = rng
        self.dir = rng.choice("RT")
        self.n = rng.choice([1, 2, 4, 5, 256, 512]) if rng.random() < 0.8 else rng.randrange(1, 513)
        self.nid = rng.choice([1, 5, 127]) if rng.random() < 0.6 else rng.randrange(1, 128)
        self.src = "a"
        self.curtis = 0
        self.cob = rng.choice(COBS) if rng.random() < 0.6 else rng.getrandbits(rng.choice([11, 29]))
        self.enabled = rng.random() < 0.6
        self.rtr = rng.random() < 0.5
        self.tt = rng.choice([0, 1, 240, 241, 252, 253, 254, 255]) if rng.random() < 0.6 else rng.randrange(256)
        self.has = [rng.random() < 0.6 for _ in range(3)]            # subs 3, 5, 6 present
        lim = (65535, 65535, 255)
        self.opt = [(rng.choice([0, 1, l]) if rng.random() < 0.4 else rng.randrange(l + 1))
                    if h and rng.random() < 0.8 else None for h, l in zip(self.has, lim)]
        self.map = rand_map(rng, rng.randrange(0, 9))
        self.cap = max(len(self.map), rng.choice([1, 2, 8, 8, 8, 16, 64]))
        self.array = rng.random() < 0.5
        self.extra_objs = []
        self.fixed = 0
        self.wf = self.rf = None
        self.dev0 = None
        self.odvals = False
        self.drop_b = False
        self.odcom_drop = []
        self.odmap_n = None
        self.mappable_drop = False
        for k, v in kw.items():
            setattr(self, k, v)

    def com_idx(self):
        return (0x1800 if self.dir == "T" else 0x1400) + self.n - 1

    def map_idx(self):
        return (0x1A00 if self.dir == "T" else 0x1600) + self.n - 1

    def render(self):
        rng = self.rng
        ci, mi = self.com_idx(), self.map_idx()
        words = [word_of(e) for e in self.map]
        # prior device state: enabled or not, another COB-ID, another mapping
        other = rand_map(rng, rng.randrange(0, min(self.cap, 8) + 1))
        owords = [word_of(e) for e in other]
        if self.dev0 is None:
            w0 = (rng.choice(COBS) if rng.random() < 0.5 else self.cob or 0) & 0x1FFFFFFF
            w0 |= rng.choice([0, 0, NV]) | rng.choice([0, NORTR]) | rng.choice([0, 0, 1 << 29])
            cnt = len(owords)
            ents = (owords + [rng.choice([0, rng.getrandbits(32)]) for _ in range(self.cap)])[:self.cap]
            cnt = min(cnt, self.cap)
            dev = [w0, rng.randrange(256)] + [rng.randrange(l + 1) if h else None
                                             for h, l in zip(self.has, (65535, 65535, 255))] \
                + [cnt, self.fixed]
        else:
            dev, ents = self.dev0
        mappable = sorted(set(words + owords + [rng.getrandbits(32) for _ in range(2)]
                              + ([0] if self.fixed else [])))
        if self.mappable_drop and words:
            mappable.remove(rng.choice(words))
        # dictionary
        com_members = [(0, None, 6), (1, None, None), (2, None, None)]
        com_members += [(s, None, None) for s, h in zip((3, 5, 6), self.has) if h]
        nmap = self.cap if self.odmap_n is None else self.odmap_n
        if self.array:
            listed = sorted({0, 1} | set(range(1, rng.randrange(1, nmap + 1) + 1))) if nmap else [0]
        else:
            listed = list(range(0, nmap + 1))
        map_members = [(s, None, None) for s in listed]
        if self.odvals:
            # the configuration lives in the dictionary: DCF value, default, or both
            def split(v):
                r = rng.random()
                if r < 0.35:
                    return (v, None)
                if r < 0.7:
                    return (None, v)
                return (v, rng.getrandbits(8))
            wcob = (self.cob or 0) | (0 if self.enabled else NV) | (0 if self.rtr else NORTR)
            vals = {1: wcob, 2: self.tt, 3: self.opt[0], 5: self.opt[1], 6: self.opt[2]}
            com_members = [(s,) + (split(vals[s]) if vals.get(s) is not None else (None, None))
                           for s, _, _ in com_members]
            mv = {0: len(words)}
            mv.update({i + 1: w for i, w in enumerate(words)})
            if self.array:
                listed = sorted(set(listed) | set(range(1, len(words) + 1)))
            map_members = [(s,) + (split(mv[s]) if s in mv else (None, rng.choice([None, 0])))
                           for s in listed]
        com_members = [m for m in com_members if m[0] not in self.odcom_drop]
        objs_a = objs_for(rng, [self.map, other], ci, mi)
        objs_a += [e for e in self.extra_objs if all(e[0] != x[0] for x in objs_a)]
        objs_b = list(objs_a)
        if self.drop_b and objs_b:
            objs_b.pop(rng.randrange(len(objs_b)))
        cfg = ",".join([on(self.cob), str(int(self.enabled)), str(int(self.rtr)), on(self.tt)]
                       + [on(x) for x in self.opt])
        devs = ",".join(on(x) for x in dev)
        fl = lambda x: "-" if x is None else f"{x[0]},{x[1]}"  # noqa: E731
        return " ".join([
            "run", self.dir, str(self.n), str(self.nid), self.src, str(self.curtis), cfg,
            fmt_map(self.map), fmt_members(com_members),
            ("A/" if self.array else "R/") + fmt_members(map_members),
            fmt_objs(objs_a), fmt_objs(objs_b), devs,
            ",".join(str(e) for e in ents) if ents else "-",
            ",".join(str(w) for w in mappable) if mappable else "-", fl(self.wf), fl(self.rf)])


ABORTS = [0x06010002, 0x06010000, 0x06090030, 0x08000022, 0x06040041, 0x05040000]


# ---- collection operations
NUMS = [1, 2, 3, 4, 5, 256, 511, 512]


def merge_objs(lists):
    """node-wide object list knowing everything any of the per-PDO lists knows"""
    acc = {}
    for objs in lists:
        for idx, subs in objs:
            if idx not in acc:
                acc[idx] = None if subs is None else list(subs)
            elif acc[idx] is not None:
                acc[idx] = None if subs is None else sorted(set(acc[idx]) | set(subs))
    return list(acc.items())


def coll_op(rng, keys, hows, pre="-", save="p", read="p", wf=None, rf=None, shuffle=False,
            all_odvals=False, drop_b=False, tweak=None):
    """keys: [(dir, n)], hows: per key u|a|d|o"""
    nid = rng.choice([1, 5, 127]) if rng.random() < 0.6 else rng.randrange(1, 128)
    toks, objs = [], []
    for i, ((d, n), how) in enumerate(zip(keys, hows)):
        sc = Scn(rng, dir=d, n=n, nid=nid, odvals=all_odvals or how == "o")
        if how == "d":
            sc.map = []
        if tweak:
            tweak(i, sc)
        a = sc.render().split(" ")
        objs.append(Op._objs(a[10]))
        toks.append("~".join([d, str(n), how, a[6], a[7], a[8], a[9], a[12], a[13], a[14]]))
    if shuffle:
        rng.shuffle(toks)
    oa = merge_objs(objs)
    ob = list(oa)
    if drop_b and ob:
        ob.pop(rng.randrange(len(ob)))
    fl = lambda x: "-" if x is None else f"{x[0]},{x[1]}"  # noqa: E731
    return " ".join(["coll", str(nid), pre, save, read, fmt_objs(oa), fmt_objs(ob), fl(wf), fl(rf)] + toks)


def rand_keys(rng, k, dirs="RT"):
    keys = set()
    while len(keys) < k:
        n = rng.choice(NUMS) if rng.random() < 0.7 else rng.randrange(1, 513)
        keys.add((rng.choice(dirs), n))
    return sorted(keys, key=lambda x: (x[0] == "T", x[1]))


def gen_coll(tier, rng):
    k = 1 if tier == "quick" else 8
    calls = ["m", "r", "t", "c", "p"]
    # 1. every way of saving x every way of reading back, all PDOs set up by the application
    for sv in calls:
        for rd in calls:
            for _ in range(2 * k):
                keys = rand_keys(rng, rng.randrange(1, 5))
                yield coll_op(rng, keys, ["a"] * len(keys), save=sv, read=rd, shuffle=rng.random() < 0.3)
    # 2. PDOs that were never read or set up, before / between / after configured ones
    for sv in ["r", "t", "c", "p", "p", "m"]:
        for nk in (2, 3, 4):
            for _ in range(3 * k):
                dirs = {"r": "R", "t": "T"}.get(sv, rng.choice(["R", "T", "RT", "RT"]))
                keys = rand_keys(rng, nk, dirs)
                hows = [rng.choice("ua") for _ in keys]
                r = rng.random()
                if r < 0.5:
                    hows[0], hows[-1] = "u", "a"          # the first one of the collection untouched
                elif r < 0.7:
                    hows[0], hows[-1] = "a", "u"
                yield coll_op(rng, keys, hows, save=sv, read=rng.choice(calls), shuffle=rng.random() < 0.3)
    # 3. every source of the configuration side by side
    for _ in range(50 * k):
        keys = rand_keys(rng, rng.randrange(2, 5))
        yield coll_op(rng, keys, [rng.choice("uaddoo") for _ in keys], save=rng.choice(calls),
                      read=rng.choice(calls), shuffle=rng.random() < 0.3)
    # 4. the collection read first (live or from the dictionary), some PDOs then set up anew
    for _ in range(40 * k):
        keys = rand_keys(rng, rng.randrange(1, 5))
        src = rng.choice("do")
        yield coll_op(rng, keys, [rng.choice("uua") for _ in keys], pre=src + rng.choice("rtcp"),
                      save=rng.choice(calls), read=rng.choice(calls), all_odvals=src == "o")
    # 5. load_configuration with several PDOs in the dictionary
    for _ in range(25 * k):
        keys = rand_keys(rng, rng.randrange(1, 5))
        yield coll_op(rng, keys, ["u"] * len(keys), save="l", read=rng.choice(calls), all_odvals=True)
    # 6. outside the domain: faults, a PDO the device cannot take, a reader that lacks an object
    for _ in range(40 * k):
        keys = rand_keys(rng, rng.randrange(1, 5))
        yield coll_op(rng, keys, [rng.choice("uaado") for _ in keys], save=rng.choice(calls),
                      read=rng.choice(calls), wf=(rng.randrange(1, 25), rng.choice(ABORTS)))
    for _ in range(20 * k):
        keys = rand_keys(rng, rng.randrange(1, 5))
        yield coll_op(rng, keys, [rng.choice("uaado") for _ in keys], pre=rng.choice(["-", "dp", "dc"]),
                      save=rng.choice(calls), read=rng.choice(calls),
                      rf=(rng.randrange(1, 25), rng.choice(ABORTS)))
    for _ in range(30 * k):
        keys = rand_keys(rng, rng.randrange(2, 5))
        bad = rng.randrange(len(keys))
        kind = rng.randrange(4)

        def tweak(i, sc, bad=bad, kind=kind):
            if i != bad:
                return
            if kind == 0:
                sc.fixed = 1
            elif kind == 1:
                sc.mappable_drop = True
            elif kind == 2:
                sc.cob = None
            else:
                sc.odcom_drop = [rng.choice([1, 2])]
        yield coll_op(rng, keys, ["a"] * len(keys), save=rng.choice(calls), read=rng.choice(calls),
                      tweak=tweak, drop_b=rng.random() < 0.2)


def subs_op(rng, keys, hows, entry, crowd):
    """crowd(rng, cob, key) -> tokens already subscribed to the COB-ID a map will use (or None for
    'no entry'); the table also gets entries on ids no map uses"""
    nid = rng.choice([1, 5, 127]) if rng.random() < 0.6 else rng.randrange(1, 128)
    toks, objs, prior = [], [], []
    seen = set()
    for (d, n), how in zip(keys, hows):
        sc = Scn(rng, dir=d, n=n, nid=nid)
        if rng.random() < 0.75:
            sc.enabled = True
        a = sc.render().split(" ")
        dev = a[12].split(",")
        if entry[1] == "r" and rng.random() < 0.7:      # what counts for read() is the device's word
            dev[0] = str(int(dev[0]) & ~NV & 0xFFFFFFFF)
            a[12] = ",".join(dev)
        objs.append(Op._objs(a[10]))
        toks.append("~".join([d, str(n), how, a[6], a[7], a[8], a[9], a[12], a[13], a[14]]))
        used = (int(dev[0]) & MASK29) if entry[1] == "r" else sc.cob
        if used is not None and used not in seen:
            seen.add(used)
            t = crowd(rng, used, f"{d}{n}")
            if t is not None:
                prior.append(f"{used}:{','.join(t)}")
    for _ in range(rng.randrange(0, 3)):                # entries on ids no map uses
        cob = rng.choice([0x80, 0x100, 0x701, 0x7E5, rng.getrandbits(11), rng.getrandbits(29)])
        if cob not in seen:
            seen.add(cob)
            prior.append(f"{cob}:{','.join(rng.sample(['A1', 'A2', 'L1', 'L3'], rng.randrange(0, 3)))}")
    rng.shuffle(prior)
    return " ".join(["subs", str(nid), entry, fmt_objs(merge_objs(objs)), ";".join(prior) or "-"] + toks)


def crowd_any(rng, cob, key):
    r = rng.randrange(8)
    if r == 0:
        return None                                      # nobody ever subscribed to that id
    if r == 1:
        return []                                        # subscribed and unsubscribed again
    if r == 2:
        return ["A1"]                                    # an application listener
    if r == 3:
        return ["L" + str(rng.randrange(1, 5))]          # PDO linking
    if r == 4:
        return ["S" + key]                               # the map itself, from an earlier call
    if r == 5:
        return rng.sample(["A1", "A2", "L1", "L2", "S" + key], 3)
    if r == 6:
        return ["A1", "S" + key, "L2"]
    return ["L1", "A3"]


ENTRIES = [x + "s" for x in "mrtcp4"] + [x + "r" for x in "mrtcp"] + [x + "v" for x in "mrtcp"]


def gen_subs(tier, rng):
    k = 1 if tier == "quick" else 8
    for entry in ENTRIES:                                # every entry point x every kind of prior table
        for kind in range(8):
            for _ in range(k):
                keys = rand_keys(rng, rng.randrange(1, 4))
                hows = ["u" if entry[1] == "r" and rng.random() < 0.7 else "a" for _ in keys]
                forced = lambda r, cob, key, kind=kind: crowd_any(random.Random(kind), cob, key)  # noqa: E731
                yield subs_op(rng, keys, hows, entry, forced if rng.random() < 0.7 else crowd_any)
    for _ in range(60 * k):                              # free mix, some maps untouched / disabled
        entry = rng.choice(ENTRIES)
        keys = rand_keys(rng, rng.randrange(1, 5))
        yield subs_op(rng, keys, [rng.choice("uaa") for _ in keys], entry, crowd_any)


def gen_ops(tier, rng):
    yield from gen_single(tier, rng)
    # own streams for the collection / subscription operations, so that the streams of a seed stay as they were
    r2 = random.Random(rng.getrandbits(64))
    yield from gen_coll(tier, r2)
    yield from gen_subs(tier, random.Random(r2.getrandbits(64)))


def gen_single(tier, rng):
    big = tier != "quick"
    k = 8 if big else 1
    # 1. the property's domain: attributes -> save -> read back ------------------------------
    for tt in range(256):                                   # every transmission type
        for _ in range(k):
            yield Scn(rng, tt=tt, has=[True, True, True] if rng.random() < 0.7 else
                      [rng.random() < 0.5 for _ in range(3)]).render()
    for cob in COBS:                                        # every COB-ID boundary x flags
        for en in (False, True):
            for rtr in (False, True):
                yield Scn(rng, cob=cob, enabled=en, rtr=rtr).render()
    for pat in range(8):                                    # sub 3/5/6 present/absent patterns
        has = [bool(pat & 1), bool(pat & 2), bool(pat & 4)]
        for tt in (0, 253, 254, 255):
            for _ in range(2 * k):
                yield Scn(rng, has=has, tt=tt).render()
    for nobj in range(0, 9):                                # 0..8 mapped objects
        for _ in range(12 * k):
            s = Scn(rng)
            s.map = rand_map(rng, nobj)
            s.cap = max(len(s.map), rng.choice([nobj, 8, 64]), 1)
            yield s.render()
        s = Scn(rng)                                        # 8 x 8 bit, 64 x 1 bit, 1 x 64 bit
        s.map = [(0x2000 + i, i, 8) for i in range(nobj)]
        s.cap = 8
        yield s.render()
    s = Scn(rng)
    s.map, s.cap = [(0x2000 + i, 0, 1) for i in range(64)], 64
    yield s.render()
    s = Scn(rng)
    s.map, s.cap = [(0xFFFF, 255, 64)], 1
    yield s.render()
    for d in "RT":                                          # PDO numbers
        for n in (1, 2, 3, 4, 5, 6, 255, 256, 257, 511, 512):
            for nid in (1, 127):
                yield Scn(rng, dir=d, n=n, nid=nid).render()
        for n in (0, 513, 600):
            yield Scn(rng, dir=d, n=n).render()
    for _ in range(600 * k):                                # free mix
        yield Scn(rng).render()
    # 2. configuration from the dictionary (DCF value, then default) -------------------------
    for _ in range(500 * k):
        yield Scn(rng, src="o", odvals=True).render()
    for _ in range(60 * k):                                 # neither value nor default somewhere
        yield Scn(rng, src="o", odvals=rng.random() < 0.5, odcom_drop=rng.choice([[], [1], [2], [3]])).render()
    # 3. configuration read from the live device, saved back ---------------------------------
    for _ in range(400 * k):
        s = Scn(rng, src="d")
        s.map = []
        yield s.render()
    # 4. outside the domain: every error path of save()/read() -------------------------------
    for _ in range(40 * k):                                 # a fault at every write position
        s = Scn(rng)
        line = s.render()
        nwrites = 3 + sum(x is not None for x in [s.tt] + s.opt) + len(s.map) + int(s.enabled)
        for pos in range(1, nwrites + 1):
            a = line.split(" ")
            a[15] = f"{pos},{rng.choice(ABORTS)}"
            yield " ".join(a)
    for _ in range(60 * k):                                 # read faults (A's fallback, B's reads)
        s = Scn(rng, src=rng.choice("ad"), rf=(rng.randrange(1, 12), rng.choice(ABORTS)))
        if rng.random() < 0.5:
            s.fixed = 1
        yield s.render()
    for _ in range(150 * k):                                # fixed-length mapping arrays
        s = Scn(rng, fixed=1)
        if rng.random() < 0.3:
            s.wf = (rng.randrange(1, 14), rng.choice(ABORTS))
        yield s.render()
    for _ in range(60 * k):                                 # dictionary lacks an entry save() needs
        yield Scn(rng, odcom_drop=[rng.choice([1, 2, 3, 5, 6])], has=[True, True, True]).render()
    for _ in range(40 * k):                                 # mapping object shorter than the mapping
        s = Scn(rng, array=rng.random() < 0.3)
        s.odmap_n = rng.randrange(0, max(1, len(s.map)))
        yield s.render()
    for _ in range(120 * k):                                # values that do not fit / odd mappings
        s = Scn(rng)
        r = rng.randrange(9)
        if r == 0:
            s.tt = rng.choice([256, 257, 65535])
        elif r == 1:
            s.has[0], s.opt[0] = True, rng.choice([65536, 1 << 20])
        elif r == 2:
            s.has[2], s.opt[2] = True, rng.choice([256, 1000])
        elif r == 3:
            s.cob = rng.choice([1 << 29, (1 << 29) + 5, 1 << 30, 1 << 31, (1 << 32) - 1, 1 << 32])
        elif r == 4:
            s.map = s.map + [(rng.choice([0, 65536, 70000]), 0, 8)]
            s.cap = max(s.cap, len(s.map))
        elif r == 5:
            s.map = [(0x2000, rng.choice([256, 300]), 8)] + s.map[:3]
            s.cap = max(s.cap, len(s.map))
        elif r == 6:
            s.map = [(0x2000, 1, rng.choice([0, 65, 127, 128, 129, 255, 256]))] + s.map[:2]
            s.cap = max(s.cap, len(s.map))
        elif r == 7:
            s.cob = None
        else:
            s.tt = None
        yield s.render()
    for _ in range(80 * k):                                 # device cannot hold / map it
        s = Scn(rng)
        r = rng.randrange(3)
        if r == 0 and s.map:
            s.cap = rng.randrange(0, len(s.map))
            s.odmap_n = 8
        elif r == 1:
            s.mappable_drop = True
        else:
            s.map = [(0x2000 + i, 0, rng.choice([16, 32, 64])) for i in range(rng.randrange(2, 8))]
            s.cap = 8
        yield s.render()
    for _ in range(60 * k):                                 # second node's dictionary lacks an object
        yield Scn(rng, drop_b=True).render()
    for _ in range(80 * k):                                 # curtis_hack (outside the theorems)
        yield Scn(rng, curtis=1, src=rng.choice("aod"), odvals=True).render()
    for _ in range(60 * k):                                 # odd prior device states read by A / B
        s = Scn(rng, src=rng.choice("ad"))
        cap = rng.randrange(0, 9)
        ents = [rng.choice([0, rng.getrandbits(32), word_of((0x2000, 1, 8)), 0x20000080])
                for _ in range(cap)]
        dev = [rng.getrandbits(32), rng.randrange(256)] + \
              [rng.randrange(256) if h else None for h in s.has] + [rng.randrange(0, cap + 3), 0]
        s.dev0 = (dev, ents)
        s.extra_objs = [(0x2000, None)]
        yield s.render()


CORPUS = [
    # TPDO1 of node 5, enabled, 2 objects, device starts enabled with another COB-ID and mapping
    "run T 1 5 a 0 389,1,1,255,10,100,0 24641.0.16;24676.0.32 0:-:6;1:-:-;2:-:-;3:-:-;5:-:-;6:-:- "
    "A/0:-:-;1:-:- 24641;24676 24641;24676 1073742213,1,0,0,0,1,0 1616904208,0,0,0,0,0,0,0 "
    "1614872592,1617166368,1616904208 - -",
    # same, disabled, RPDO512 with a 29-bit COB-ID, optional subs absent
    "run R 512 127 a 0 536870911,0,0,254,-,-,- 8192.1.8 0:-:2;1:-:-;2:-:- "
    "R/0:-:-;1:-:-;2:-:- 8192:1,2 8192:1,2 2147484159,0,-,-,-,0,0 0,0 536871176 - -",
    # node 5 with three TPDOs, only TPDO3 set up by the application (TPDO1, TPDO2 never touched and
    # enabled on the device), saved through node.tpdo, read back through node.tpdo
    "coll 5 - t t 8193;8194;8195 8193;8194;8195 - - "
    "T~1~u~-,0,1,-,-,-,-~-~0:-:5;1:-:-;2:-:-;3:-:-;5:-:-~A/0:-:-;1:-:-~389,1,0,0,-,0,0~0,0~536936480 "
    "T~2~u~-,0,1,-,-,-,-~-~0:-:5;1:-:-;2:-:-;3:-:-;5:-:-~A/0:-:-;1:-:-~645,1,0,0,-,1,0~536936480,0~536936480 "
    "T~3~a~965,1,0,254,20,500,-~8193.0.32;8194.0.16;8195.0.8~0:-:5;1:-:-;2:-:-;3:-:-;5:-:-~A/0:-:-;1:-:-"
    "~2147484549,1,0,0,-,0,0~0,0,0,0~536936480,537002000,537067528",
    # the same through node.pdo with an RPDO in front, listed out of order, read back map by map
    "coll 5 - p m 8193;8194;8195 8193;8194;8195 - - "
    "T~3~a~965,1,0,254,20,500,-~8193.0.32;8194.0.16;8195.0.8~0:-:5;1:-:-;2:-:-;3:-:-;5:-:-~A/0:-:-;1:-:-"
    "~2147484549,1,0,0,-,0,0~0,0,0,0~536936480,537002000,537067528 "
    "R~2~u~-,0,1,-,-,-,-~-~0:-:2;1:-:-;2:-:-~R/0:-:-;1:-:-~2147484421,255,-,-,-,0,0~0~- "
    "T~1~a~389,0,1,1,-,-,-~8195.0.8~0:-:5;1:-:-;2:-:-;3:-:-;5:-:-~A/0:-:-;1:-:-~389,1,0,0,-,1,0~537002000,0~537002000,537067528",
    # PDO linking: RPDO1 of node 4 consumes COB-ID 183h, on which a map of another node object already
    # listens; an application listener sits on 184h, 304h was subscribed and unsubscribed earlier; the
    # set-up is known to match, so node.pdo.subscribe() is used (RPDO2 disabled)
    "subs 4 ps 8193 387:L1;388:A1;772: "
    "R~1~a~387,1,1,255,-,-,-~8193.0.16~0:-:2;1:-:-;2:-:-~A/0:-:-;1:-:-~387,255,-,-,-,1,0~536936464,0~536936464 "
    "R~2~a~772,0,1,255,-,-,-~8193.0.16~0:-:2;1:-:-;2:-:-~A/0:-:-;1:-:-~2147484420,255,-,-,-,1,0~536936464,0~536936464 "
    "T~1~a~388,1,1,255,-,-,-~8193.0.16~0:-:2;1:-:-;2:-:-~A/0:-:-;1:-:-~388,255,-,-,-,1,0~536936464,0~536936464",
    # the same table, the maps read from the device (read() subscribes), TPDO1 already subscribed before
    "subs 4 pr 8193 387:L1;388:A1,ST1;772: "
    "R~1~u~-,0,1,-,-,-,-~-~0:-:2;1:-:-;2:-:-~A/0:-:-;1:-:-~387,255,-,-,-,1,0~536936464,0~536936464 "
    "R~2~u~-,0,1,-,-,-,-~-~0:-:2;1:-:-;2:-:-~A/0:-:-;1:-:-~2147484420,255,-,-,-,1,0~536936464,0~536936464 "
    "T~1~u~-,0,1,-,-,-,-~-~0:-:2;1:-:-;2:-:-~A/0:-:-;1:-:-~388,255,-,-,-,1,0~536936464,0~536936464",
]

LEVEL_TEXT = ("Lean 4 theorems over all configurations (COB-ID < 2^29, flags, transmission type, optional "
              "parameters, any list of mapped objects), all dictionaries and all prior device states: the write "
              "list of PdoMap.save against ANY device is a prefix of invalidate / parameters / count:=0 / entries / "
              "count:=n / validate-iff-enabled (complete when save returns), entries are index<<16|sub<<8|len; the "
              "strict CiA 301 device accepts every write from every prior state (and refuses every shortcut); a fresh node's read() returns the "
              "same COB-ID, flags, transmission type, mapping (and timers for 254/255) and subscribes iff enabled; "
              "from_od takes value-else-default; load_configuration round-trips; PdoMaps numbering = CiA 301 object "
              "ranges and pre-defined connection set; collections (node.rpdo / node.tpdo / node.pdo .save() and .read()): against any "
              "device the writes are a prefix of the per-PDO safe procedures concatenated in increasing PDO number "
              "(RPDOs before TPDOs), a PDO whose COB-ID was never set gets no write and does not end the loop; a "
              "strict device with any number of distinct PDOs in any prior state accepts everything, ends with "
              "every configured PDO's encodings and every untouched PDO unchanged, and a fresh node reads the whole "
              "collection back identically; subscriptions (read/save/PdoMap.subscribe/PdoBase.subscribe/setup_pdos) from "
              "ANY prior Network.subscribers table (C10's model): an enabled map is among the subscribers of its "
              "COB-ID exactly once, a disabled one is not added, earlier subscriptions stay in place and order.  "
              "Model tied to the code by regenerated constants and a "
              "differential run through the real SdoClient against an independent Python strict device")
LEVEL_NOTE = ("trusted: Lean kernel + propext/Classical.choice/Quot.sound; the strict device is my reading of CiA 301 "
              "(written twice); the SDO transport is abstracted to (index, sub, size, value) transactions; dictionary "
              "entries are assumed to have their CiA 301 types; the correspondence is only as strong as its generator")
TECHNIQUE = "Lean 4 proof (model + strict device spec) + differential correspondence with the implementation"
