"""C07, block transfers: one response disturbance at any step of a block download / upload, followed
by undisturbed transfers (block, segmented, expedited) on the same client and the same server.

op  `bdist <down|up> <idx> <sub> <data> <crcreq> <srvcrc> <blks> <sizeind> <pre> <at> <kind> <follow>`
  data     payload of the download / value held by the server for the upload (h<hex> | r<seed>:<n> | z<n> | f<n>)
  blks     block sizes the server announces for downloads (the stream goes on across transfers)
  pre      stale frames sitting in the client's queue before the first request (hex,hex,… or -)
  at,kind  the server's `at`-th response frame (0-based, counted over the whole op) is hit by `kind`:
           lost | late | replace:<hex> | toggle | scs:<n> | mux | dup | dupd | stale:<hex> | none
  follow   `;`-separated undisturbed transfers that follow: bd=<data> | bu | d=<data> | u
out `results | requests (transfers separated by /) | frames delivered to the client | commits | illegal`
Between two transfers time passes: frames held back arrive (stale), and a block transfer the server still
has open runs into the server's own time-out (abort 0x05040000 sent to the client).  During a transfer the
server's time-out never fires before the client's.
"""
import logging

from canopen.sdo.exceptions import SdoAbortedError, SdoCommunicationError

from peers.ref_combined_server import RefCombinedServer
from peers.sdo_rig import Rig
from props import c01
from props.blk_common import hx, parse_data, unnl

logging.disable(logging.CRITICAL)

ABORT_TIMEOUT = "8000000000000405"
INITIAL = bytes.fromhex("aabbccddeeff")       # what the object holds before a download op


def err_name(e):
    if isinstance(e, SdoAbortedError):
        return f"err aborted {e.code}"
    if isinstance(e, SdoCommunicationError):
        return "err comm"
    return "err other"


def unhexlist(s):
    return [] if s == "-" else [bytes.fromhex(x) for x in s.split(",")]


def parse(op):
    a = op.split(" ")
    return dict(dir=a[1], idx=int(a[2]), sub=int(a[3]), data=parse_data(a[4]), crcreq=a[5] == "1",
                srvcrc=a[6] == "1", blks=unnl(a[7]), sizeind=a[8] == "1", pre=unhexlist(a[9]),
                at=int(a[10]), kind=a[11], follow=[] if a[12] == "-" else a[12].split(";"))


def disturb(kind, f):
    """(frames delivered now, frames delivered when the client sends its next frame) for the frame hit"""
    k = kind.split(":")
    if k[0] == "lost":
        return [], []
    if k[0] == "replace":
        return [bytes.fromhex(k[1])], []
    if k[0] == "toggle":
        return [bytes([f[0] ^ 0x10]) + f[1:]], []
    if k[0] == "scs":
        return [bytes([(f[0] & 0x1F) | int(k[1]) << 5]) + f[1:]], []
    if k[0] == "mux":
        return [f[:1] + bytes([(f[1] + 1) % 256]) + f[2:]], []
    if k[0] == "dup":
        return [f, f], []
    if k[0] == "dupd":
        return [f], [f]
    if k[0] == "late":
        return [], [f]
    if k[0] == "stale":
        return [bytes.fromhex(k[1]), f], []
    if k[0] == "none":
        return [f], []
    raise ValueError(kind)


def run(p):
    idx, sub = p["idx"], p["sub"]
    held = {(idx, sub): INITIAL if p["dir"] == "down" else p["data"]}
    seg = c01.RefServer(held, True, True, True, [])
    server = RefCombinedServer(seg, p["blks"], p["srvcrc"], p["sizeind"])
    at, kind = p["at"], p["kind"]
    rig = Rig(2, server, chan_resp=lambda n, f: disturb(kind, f) if n == at else f)
    client = rig.client
    for f in p["pre"]:
        client.on_response(client.tx_cobid, bytearray(f), 0.0)
    results = []

    def bdown(data):
        with client.open(idx, sub, "wb", buffering=0, size=len(data), block_transfer=True,
                         request_crc_support=p["crcreq"]) as fp:
            pos = 0
            while pos < len(data):
                pos += fp.write(data[pos:])
        return "ok"

    def bup():
        with client.open(idx, sub, "rb", buffering=0, block_transfer=True,
                         request_crc_support=p["crcreq"]) as fp:
            return "ok " + hx(fp.read())

    steps = [("bd", p["data"]) if p["dir"] == "down" else ("bu", None)]
    for t in p["follow"]:
        k = t.split("=")
        steps.append((k[0], parse_data(k[1]) if len(k) > 1 else None))
    spans = []
    for n, (k, d) in enumerate(steps):
        if n:
            rig.between(server.between())
        spans.append(sum(1 for e in rig.trace if e[0] == ">"))
        try:
            if k == "bd":
                results.append(bdown(d))
            elif k == "bu":
                results.append(bup())
            elif k == "d":
                client.download(idx, sub, d)
                results.append("ok")
            elif k == "u":
                results.append("ok " + hx(client.upload(idx, sub)))
            else:
                results.append("bad")
        except Exception as e:
            results.append(err_name(e))
    rig.spans = spans
    return results, rig, server


def run_impl(op):
    p = parse(op)
    results, rig, server = run(p)
    reqs = [e[1:] for e in rig.trace if e[0] == ">"]
    parts = []
    bounds = rig.spans + [len(reqs)]
    for a, b in zip(bounds, bounds[1:]):
        parts.append(",".join(reqs[a:b]) if b > a else "-")
    commits = "&".join(f"{i}.{j}={hx(b)}" for (i, j), b in server.commits) if server.commits else "-"
    ill = "-" if server.seg.illegal is None else str(server.seg.illegal).replace(" ", "_")
    return (f"{';'.join(results)} | {'/'.join(parts)} | "
            f"{','.join(d.hex() for d in rig.delivered) if rig.delivered else '-'} | {commits} | {ill}")


# ---- oracle --------------------------------------------------------------------------------------
def frame_role(p, at):
    """what the undisturbed first transfer's `at`-th response is: init | ack | seg | end (None: not reached),
    and the number of the client frame that it answers"""
    q = dict(p, at=10 ** 9, kind="none", follow=[], pre=[])
    _, rig, _ = run(q)
    n = len(rig.delivered)
    if at >= n:
        return None, None
    nreq, nresp, answered = 0, 0, None
    for e in rig.trace:
        if e[0] == ">":
            nreq += 1
        elif e[0] == "<":
            if nresp == at:
                answered = nreq - 1
            nresp += 1
    if at == 0:
        return "init", answered
    if at == n - 1:
        return "end", answered
    return ("ack" if p["dir"] == "down" else "seg"), answered


def oracle(op, out):
    if out.startswith("HARNESS"):
        return None
    p = parse(op)
    parts = out.split(" | ")
    results = parts[0].split(";")
    spans = parts[1].split("/")
    commits = [] if parts[3] == "-" else parts[3].split("&")
    key = f"{p['idx']}.{p['sub']}="
    kind = p["kind"].split(":")[0]
    role, answered = frame_role(p, p["at"]) if kind != "none" else (None, None)
    tag = f"[{p['dir']}:{role}:{kind}]"
    first = results[0]
    holds = INITIAL if p["dir"] == "down" else p["data"]
    if first == "err other":
        return f"{tag} the disturbed transfer raised something that is neither an SDO communication nor an abort error"
    ncommit_first = 0
    if p["dir"] == "down":
        mine = [c for c in commits if c.startswith(key)]
        # commits are in order; those of the first transfer come first.  The first transfer commits at most once.
        if first == "ok":
            if not mine or mine[0] != key + hx(p["data"]):
                return (f"{tag} block download reported success but the server committed "
                        f"{mine[0][len(key):][:40] if mine else 'nothing'}")
            holds, ncommit_first = p["data"], 1
        elif mine and len(mine) > sum(1 for t in p["follow"] if t[0] in "bd" and "=" in t):
            holds, ncommit_first = bytes.fromhex(mine[0][len(key):]) if mine[0][len(key):] != "-" else b"", 1
    else:
        if first.startswith("ok") and first != "ok " + hx(p["data"]):
            return f"{tag} block upload reported success with data that differs from the server's value"
    upseg = p["dir"] == "up" and role == "seg"
    if kind == "lost" and upseg and not first.startswith("ok"):
        # block upload: the client acknowledges what it has, the server repeats the rest (C13 single_loss_repaired)
        return f"{tag} a lost segment of a block upload was not repaired: {first}"
    if kind in ("lost", "late") and role is not None and not (upseg and kind == "late"):
        # (a late segment of a block upload reaches the client together with the repetition it asked for: the
        #  transfer is repaired or ends in whatever SDO error the surplus frame causes — checked above: never wrong data)
        sent = spans[0].split(",")
        if not first.startswith("ok") and role != "seg" and (answered + 1 >= len(sent) or sent[answered + 1] != ABORT_TIMEOUT):
            return (f"{tag} a response was lost and the transfer failed, but the client did not emit the time-out "
                    f"abort frame {ABORT_TIMEOUT} next (sent: {sent[answered + 1] if answered + 1 < len(sent) else 'nothing'})")
        if not first.startswith("ok") and ABORT_TIMEOUT not in sent:
            return (f"{tag} a response was lost and the transfer failed, but the client did not emit the time-out "
                    f"abort frame {ABORT_TIMEOUT}")
        if first.startswith("ok") and not (p["dir"] == "up" and role == "seg"):
            return f"{tag} a lost response went unnoticed"
    # one transfer asks for its end once: a stream that failed must not come back with another end request when
    # it is finalised or closed again (spans[i] = the client frames of transfer i, incl. what its clean-up sent)
    for i, span in enumerate(spans):
        ends = [f for f in span.split(",") if len(f) == 16 and int(f[:2], 16) & 0xE3 == 0xC1]
        if len(ends) > 1:
            return (f"{tag} end-request: the client put {len(ends)} end-block-download requests on the bus for "
                    f"transfer {i} (a failed close() ran again)")
    for n, (t, r) in enumerate(zip(p["follow"], results[1:]), 1):
        k = t.split("=")
        if k[0] in ("d", "bd"):
            if r != "ok":
                return f"{tag} the {k[0]} transfer after the disturbed one failed: {r}"
            holds = parse_data(k[1])
            if key + hx(holds) not in commits:
                return f"{tag} the {k[0]} transfer after the disturbed one reported success without the commit"
        else:
            if r != "ok " + hx(holds):
                return f"{tag} the {k[0]} transfer after the disturbed one gave {r[:60]}, the server holds {hx(holds)[:40]}"
    return None


def signature(op, what):
    tag = what.split("]")[0].lstrip("[")
    d, role, kind = (tag.split(":") + ["", "", ""])[:3]
    if "neither an SDO" in what:
        cls = "not-an-sdo-error"
    elif "reported success" in what and "after the disturbed" not in what:
        cls = "wrong-data"
    elif "did not emit the time-out" in what:
        cls = "no-timeout-abort"
    elif "went unnoticed" in what:
        cls = "lost-unnoticed"
    elif "was not repaired" in what:
        cls = "not-repaired"
    elif "after the disturbed one" in what:
        cls = "next-transfer"
    else:
        cls = "other"
    if kind == "dupd":
        kind = "dup"
    return f"bdist:{d}:{role}:{kind}:{cls}"


def nontrivial(op, out):
    rs = out.split(" | ")[0].split(";")
    return len(rs) >= 2 and all(r.startswith("ok") for r in rs[1:])


def classify(op, out):
    a = op.split(" ")
    rs = out.split(" | ")[0].split(";")
    r0 = rs[0].split(" ")
    return f"bdist:{a[1]}:{a[11].split(':')[0]}:{r0[0] + (' ' + r0[1] if r0[0] == 'err' else '')}"


# ---- generator ---------------------------------------------------------------------------------------
COMMON = ["lost", "late", "dup", "dupd"]
ABORTS = [0x05040000, 0x06090011, 0x08000000, 0, 0xFFFFFFFF, 0x06010002]


def kinds_for(p, role, rng, last_client_frame_follows, at=0):
    idx, sub = p["idx"], p["sub"]
    mux = bytes([idx & 0xFF, idx >> 8, sub])
    ks = ["lost", "late", "dup"]
    if last_client_frame_follows:
        ks.append("dupd")
    ks.append("replace:" + (b"\x80" + mux + rng.choice(ABORTS).to_bytes(4, "little")).hex())
    if role in ("init", "ack", "end"):
        # responses with a command specifier: wrong specifier, reserved bit 4, stale frames of other protocols
        scs_ok = 5 if p["dir"] == "down" else 6
        ks += [f"scs:{n}" for n in range(8) if n not in (scs_ok, 4)]
        if not (p["dir"] == "up" and role == "end"):
            ks.append("toggle")          # bit 4 is reserved there (in the upload end response it is part of n)
        ks.append("stale:" + (b"\x60" + mux + bytes(4)).hex())          # old download-initiate response
        ks.append("stale:" + (b"\x20" + bytes(7)).hex())                 # old download-segment response
        ks.append("stale:" + (b"\x4b" + mux + b"\x01\x02\x00\x00").hex())  # old expedited upload response
        if p["dir"] == "down":
            ks.append("stale:" + (b"\xa1" + bytes(7)).hex())             # old block-download end response
            if role != "ack":
                ks.append("stale:" + (b"\xa2\x03\x05" + bytes(5)).hex())  # old block acknowledge (not at an ack)
        else:
            ks.append("stale:" + (b"\xc6" + mux + b"\x07\x00\x00\x00").hex())   # old block-upload initiate response
    if role == "init":
        ks.append("mux")
    if role == "seg":
        # an old segment frame in front of segment `at`; its number differs from the one the client waits for
        # (a stale frame that carries exactly the expected number cannot be told from the real one)
        expected = (at - 1) % 127 + 1
        ks.append("stale:" + (bytes([3 if expected != 3 else 4]) + bytes(range(7))).hex())
    return ks


def count_responses(p):
    q = dict(p, at=10 ** 9, kind="none", follow=[], pre=[])
    _, rig, _ = run(q)
    return len(rig.delivered)


def fmt(p, at, kind, follow, pre="-"):
    return (f"bdist {p['dir']} {p['idx']} {p['sub']} {p['dataspec']} {int(p['crcreq'])} {int(p['srvcrc'])} "
            f"{','.join(map(str, p['blks']))} {int(p['sizeind'])} {pre} {at} {kind} {follow}")


def gen_ops(tier, rng):
    thorough = tier == "thorough"
    idx, sub = 0x2000, 3
    configs = []
    for n, blks in [(1, [127]), (6, [2]), (7, [3]), (8, [1]), (14, [1]), (15, [2]), (30, [3, 2]), (32, [1, 2]),
                    (50, [4]), (64, [2, 5, 1])] + \
                   ([(889 + 20, [127]), (100, [7]), (300, [20, 3]), (889 * 2 + 3, [127, 5])] if thorough
                    else [(889 + 20, [127])]):
        for crc in ((1, 1), (0, 0)) if n <= 64 else ((1, 1),):
            configs.append(("down", n, blks, crc))
    for n in [1, 6, 7, 8, 14, 15, 30, 50] + ([889 + 20, 100, 300, 889 * 2 + 3] if thorough else [889 + 20]):
        for crc in ((1, 1), (0, 0)) if n <= 50 or n == 889 + 20 else ((1, 1),):
            configs.append(("up", n, [3], crc))
    follows_down = ["u;bd=r9:20", "d=h0102;bu", "bd=r11:9;u", "bu;d=h01020304050607080910"]
    follows_up = ["u;bu", "bu;d=h0102", "d=h010203040506070809;bu", "bd=r9:20;u"]
    c = 0
    for direction, n, blks, (cr, cs) in configs:
        spec = f"r{rng.randrange(1 << 20)}:{n}"
        p = dict(dir=direction, idx=idx, sub=sub, dataspec=spec, data=parse_data(spec), crcreq=bool(cr),
                 srvcrc=bool(cs), blks=blks, sizeind=bool(n % 2), pre=[], follow=[])
        nresp = count_responses(p)
        ats = range(nresp)
        if nresp > 40:      # long upload: first sub-block boundaries, a few in the middle, the end
            ats = sorted(a for a in set([0, 1, 2, 3, 126, 127, 128, 129, nresp - 3, nresp - 2, nresp - 1] +
                                        [rng.randrange(1, nresp - 1) for _ in range(12 if not thorough else 60)])
                         if 0 <= a < nresp)
        for at in ats:
            role = "init" if at == 0 else "end" if at == nresp - 1 else ("ack" if direction == "down" else "seg")
            ks = kinds_for(p, role, rng, last_client_frame_follows=(at < nresp - 1), at=at)
            if not thorough and n > 64 and len(ks) > 6:
                ks = ks[:4] + rng.sample(ks[4:], 3)
            for kind in ks:
                if direction == "up" and not cr and kind == "dupd" and (at - 1) % 127 == 0 and at + 127 < nresp - 1:
                    # a duplicate of the first segment of a sub-block arriving after that sub-block's acknowledge
                    # cannot be told from the first segment of the next one (ASSUMPTIONS); only with CRC
                    continue
                c += 1
                fl = (follows_down if direction == "down" else follows_up)[c % 4]
                yield fmt(p, at, kind, fl)
        # stale frames sitting in the queue before the first request; nothing else disturbed
        for pre in ("6000200300000000", "a203050000000000,a100000000000000", "8000200300000405",
                    "0301020304050607,c100000000000000"):
            c += 1
            yield fmt(p, 10 ** 6, "none", (follows_down if direction == "down" else follows_up)[c % 4], pre)
