#!/venv/bin/python
"""print the markdown table of seeded changes and what the checks reported (from seeded/*/meta.json, RESULTS.json)"""
import json, os, glob
ROOT = os.path.dirname(os.path.dirname(os.path.abspath(__file__)))
res = json.load(open(os.path.join(ROOT, "seeded", "RESULTS.json")))
extra = json.load(open(os.path.join(ROOT, "seeded", "CROSS.json"))) if os.path.exists(os.path.join(ROOT, "seeded", "CROSS.json")) else {}
print("| change | property | what was changed | needs | first run of the own check | now | detail |")
print("|---|---|---|---|---|---|---|")
for d in sorted(glob.glob(os.path.join(ROOT, "seeded", "C[0-9]*_*"))):
    n = os.path.basename(d)
    m = json.load(open(os.path.join(d, "meta.json")))
    r = res.get(n, {})
    if r.get("detected"):
        verdict = "VIOLATION with failing input" if r.get("with_failing_input") else "VIOLATION (no-failing-input-found)"
    elif r:
        verdict = "missed"
    else:
        verdict = "not run"
    s = r.get("summary_line", "")
    detail = " ".join(x for x in s.split() if x.split("=")[0] in ("discharged", "obligations", "mismatches", "violations"))
    if n in extra:
        detail += "; " + extra[n]
    first = "reported" if r.get("first_run_detected", True) else "missed"
    if r.get("first_run_note"):
        first = "reported, no failing input"
    print(f"| {n} | {m['property']} | {' '.join(m['summary'].replace('|', '/').split())} | {' '.join(m.get('manifests_when', '').replace('|', '/').split())[:220]} | {first} | {verdict} | {detail} |")


