"""Translator for everything that is *data* in /repo (DESIGN.md §1).

Imports the live canopen modules from the working tree under test and prints their tables
as Lean literals into lean/CanopenModel/Generated/*.lean.  Files are rewritten only when
their content changes so Lake's cache stays valid.  Any failure (import error, a table
with a shape the translator does not know) is reported to the caller as a
TranslatorError; the caller treats it as a broken proof obligation, not as a crash.
"""
import os
import sys

HERE = os.path.dirname(os.path.abspath(__file__))
VERIF = os.path.dirname(HERE)
GEN_DIR = os.path.join(VERIF, "lean", "CanopenModel", "Generated")
if HERE not in sys.path:
    sys.path.insert(0, HERE)


from genlib import TranslatorError  # noqa: E402


def discover():
    """harness/gen/*.py each export GENERATORS = {"LeanModuleName": function returning text}.
    Returns (generators, errors)."""
    import importlib
    gens, errs = {}, {}
    for fn in sorted(os.listdir(os.path.join(HERE, "gen"))):
        if fn.endswith(".py") and not fn.startswith("_"):
            try:
                mod = importlib.import_module("gen." + fn[:-3])
                gens.update(mod.GENERATORS)
            except Exception as e:
                for n in GEN_FILES.get(fn, ["*"]):
                    errs[n] = f"gen/{fn}: {type(e).__name__}: {e}"
    return gens, errs


# which Lean modules each generator file is responsible for (used only to attribute a failure
# to import a generator file to the properties that depend on it)
GEN_FILES = {}


def generate(repo="/repo", only=None):
    """Regenerate tables.  Returns (status, errors): status maps name -> 'written'|'unchanged',
    errors maps name -> message for every table that could not be translated (its file is left
    as it was).  The caller treats an error in a table its property depends on as a broken
    proof obligation."""
    if sys.path[0] != repo:
        sys.path.insert(0, repo)
    os.makedirs(GEN_DIR, exist_ok=True)
    gens, errs = discover()
    res = {}
    for name, fn in gens.items():
        if only and name not in only:
            continue
        try:
            text = fn()
        except Exception as e:  # TranslatorError, import errors, attribute errors, ...
            errs[name] = f"{type(e).__name__}: {e}"
            continue
        path = os.path.join(GEN_DIR, name + ".lean")
        old = None
        if os.path.exists(path):
            with open(path, encoding="utf-8") as f:
                old = f.read()
        if old != text:
            with open(path, "w", encoding="utf-8") as f:
                f.write(text)
            res[name] = "written"
        else:
            res[name] = "unchanged"
    return res, errs


if __name__ == "__main__":
    print(generate(os.environ.get("VERIF_REPO", "/repo")))
