#!/venv/bin/python
"""re-embed the output of mk_seeded_table.py between the markers in DESIGN.md"""
import os, subprocess, re
ROOT = os.path.dirname(os.path.dirname(os.path.abspath(__file__)))
tab = subprocess.check_output(["/venv/bin/python", os.path.join(ROOT, "harness", "mk_seeded_table.py")]).decode()
p = os.path.join(ROOT, "DESIGN.md")
s = open(p).read()
a = s.index("<!-- seeded-table:begin")
a = s.index("\n", a) + 1
b = s.index("<!-- seeded-table:end -->")
open(p, "w").write(s[:a] + tab + s[b:])
print("embedded", tab.count("\n") - 2, "rows")
