"""Writes /verif/MANIFEST.json from the property modules that exist (kept valid at all times)."""
import importlib, json, os, sys
HERE = os.path.dirname(os.path.abspath(__file__))
VERIF = os.path.dirname(HERE)
sys.path.insert(0, HERE); sys.path.insert(0, "/repo")
ALL = ["C%02d" % i for i in range(1, 21)]
checks, na = [], []
for pid in ALL:
    try:
        m = importlib.import_module(f"props.{pid.lower()}")
    except ModuleNotFoundError as e:
        if f"props.{pid.lower()}" not in str(e):
            raise
        na.append({"property_id": pid, "reason": "check not built yet in this snapshot of /verif (designed in "
                   "DESIGN.md §5; the technique applies, the model and proofs are still to be written)"})
        continue
    checks.append({
        "property_id": pid,
        "quick_cmd": f"./check {pid} --tier quick",
        "thorough_cmd": f"./check {pid} --tier thorough",
        "evidence_file": f"evidence/{pid}.json",
        "replay_cmd_template": f"./check {pid} --replay {{path}}",
        "engine": "lean4-proof+correspondence",
        "level_claimed": {"category": "proof", "text": m.LEVEL_TEXT, "design_ref": f"DESIGN.md §5 {pid}"},
        "level_note": m.LEVEL_NOTE,
        "technique": m.TECHNIQUE,
    })
man = {
    "version": 1,
    "setup_cmd": "./check --setup",
    "hooks": {"guard": "CANOPEN_VERIF", "enable": "no source hooks are needed: every observation point is public API; "
              "checks set CANOPEN_VERIF=1 for uniformity only",
              "baseline_off_cmd": "cd /repo && /venv/bin/python -m pytest -ra -q -p no:cacheprovider --timeout=900 "
              "--continue-on-collection-errors", "source_commits": [], "add_only": True},
    "engines": [{"name": "lean4-proof+correspondence", "path": "harness/vcheck.py",
                 "serves_properties": [c["property_id"] for c in checks],
                 "kind_free_text": "Lean 4 theorems about a hand-written executable model (lean/CanopenModel) over tables "
                 "regenerated from /repo on every run (harness/gen_tables.py), tied to the code by a differential "
                 "correspondence run (real code vs compiled Lean driver) and an independent oracle that turns a broken "
                 "obligation into a failing input"}],
    "checks": checks,
    "not_applicable": na,
    "notes": "See DESIGN.md. Exit codes: 0 held, 1 VIOLATION, 2 infrastructure failure. known_findings.json lists "
             "recorded findings (open) and repaired defects (fixed).",
}
with open(os.path.join(VERIF, "MANIFEST.json"), "w") as f:
    json.dump(man, f, indent=1)
print(f"{len(checks)} checks, {len(na)} not yet claimed")
