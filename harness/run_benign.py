#!/venv/bin/python
"""Run the checks against behaviour-preserving changes kept under /verif/benign/<name>/ (patch.diff, meta.json).

For each change: scratch worktree of /repo, apply, the library's own tests, then EVERY check's quick tier (no
escalation) and, for the checks whose anchored source changed, the escalated quick tier as well.  A check that
prints VIOLATION on such a tree raised a false alarm (unless the change turns out not to be behaviour-preserving
after all).  Results go to benign/RESULTS.json.

usage: run_benign.py [name ...]
"""
import json, os, subprocess, sys, shutil, time

ROOT = os.path.dirname(os.path.dirname(os.path.abspath(__file__)))
REPO = os.environ.get("VERIF_REPO", "/repo")
BEN = os.path.join(ROOT, "benign")
PY = "/venv/bin/python"


def sh(cmd, cwd=None, env=None, timeout=7200):
    p = subprocess.run(cmd, cwd=cwd, env=env, capture_output=True, text=True, timeout=timeout)
    return p.returncode, p.stdout + p.stderr


def main():
    names = sys.argv[1:] or sorted(n for n in os.listdir(BEN) if os.path.isdir(os.path.join(BEN, n)))
    wt = f"/tmp/bencheck_{os.getpid()}"
    sh(["git", "-C", REPO, "worktree", "add", "--detach", wt, "HEAD"])
    rp = os.path.join(BEN, "RESULTS.json")
    results = json.load(open(rp)) if os.path.exists(rp) else {}
    ev_keep = f"/tmp/bencheck_ev_{os.getpid()}"
    shutil.copytree(os.path.join(ROOT, "evidence"), ev_keep)
    man = json.load(open(os.path.join(ROOT, "MANIFEST.json")))
    pids = [c["property_id"] for c in man["checks"]]
    try:
        for name in names:
            d = os.path.join(BEN, name)
            meta = json.load(open(os.path.join(d, "meta.json")))
            sh(["git", "-C", wt, "checkout", "--", "."])
            rc, out = sh(["git", "-C", wt, "apply", os.path.join(d, "patch.diff")])
            r = {"summary": meta.get("summary", ""), "kind": meta.get("kind", "")}
            if rc != 0:
                r["error"] = "patch does not apply"
                results[name] = r
                continue
            rct, outt = sh([PY, "-m", "pytest", "-q", "-p", "no:cacheprovider", "--timeout=900"], cwd=wt,
                           env=dict(os.environ, PYTHONPATH=wt))
            r["tests"] = outt.strip().splitlines()[-1] if outt.strip() else ""
            alarms, escalated = {}, []
            t0 = time.time()
            for pid in pids:
                env = dict(os.environ, VERIF_REPO=wt, VERIF_NO_ESCALATE="1")
                rcc, outc = sh([os.path.join(ROOT, "check"), pid], cwd=ROOT, env=env)
                if rcc != 0:
                    alarms[pid] = [l[:300] for l in outc.splitlines() if l.startswith(("VIOLATION", "failing input", "broken obligation", "INFRA"))][:4]
                if "source changed" in outc or True:
                    pass
            # escalated runs for the checks whose anchored source changed
            for pid in pids:
                rcc, outc = sh([os.path.join(ROOT, "check"), pid, "--dry-fingerprint"], cwd=ROOT, env=dict(os.environ, VERIF_REPO=wt))
                ch = [q for q in outc.strip().partition("CHANGED ")[2].split(",") if q and not q.startswith("module:")]
                if ch:      # a function the property is anchored in changed (module-level changes alone: see above)
                    escalated.append(pid)
                    rcc, outc = sh([os.path.join(ROOT, "check"), pid], cwd=ROOT, env=dict(os.environ, VERIF_REPO=wt))
                    if rcc != 0 and pid not in alarms:
                        alarms[pid + "(escalated)"] = [l[:300] for l in outc.splitlines() if l.startswith(("VIOLATION", "failing input", "broken obligation", "INFRA"))][:4]
            r["alarms"] = alarms
            r["escalated"] = escalated
            r["wall"] = round(time.time() - t0, 1)
            results[name] = r
            print(f"{name}: alarms={sorted(alarms)} escalated={escalated} tests={r['tests']} {r['wall']}s", flush=True)
            json.dump(results, open(rp, "w"), indent=1, sort_keys=True)
    finally:
        shutil.rmtree(os.path.join(ROOT, "evidence"), ignore_errors=True)
        shutil.copytree(ev_keep, os.path.join(ROOT, "evidence"))
        shutil.rmtree(ev_keep, ignore_errors=True)
        sh(["git", "-C", REPO, "worktree", "remove", "--force", wt])
        shutil.rmtree(wt, ignore_errors=True)


if __name__ == "__main__":
    main()
